#!/bin/bash
# offline setup: optional contracts library into /verif/.deps, then the oracle self-test
here="$(cd "$(dirname "$0")" && pwd)"
cd "$here"
export PIP_NO_INDEX=1 PYTHONDONTWRITEBYTECODE=1
if [ ! -d .deps/icontract ]; then
  /venv/bin/python -m pip install --quiet --no-index --find-links /opt/veriftools/wheels --target .deps icontract || echo "icontract not installed (optional second net only)"
fi
PYTHONPATH="$here" /venv/bin/python -m vlib.ref.selftest || exit 1
PYTHONPATH="${VERIF_REPO:-/repo}:$here" MPLBACKEND=Agg /venv/bin/python -c "import graphiq, os; print('graphiq from', os.path.dirname(graphiq.__file__))" 2>&1 | grep -v -i conda
exit 0
