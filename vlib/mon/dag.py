"""DAG monitor (C12): structural invariants of a CircuitDAG, checked from the outside on the live object.
`check(circ, prog=None)` returns a list of problems (empty = consistent).  With a Program specification the per-register
order of operations is compared by object identity as well.
`DagMonitor` attaches sys.monitoring probes to the public edit methods so that the invariant is re-checked after every
edit performed by anybody (harness, solvers, metrics)."""
import networkx as nx

from .. import probes


def _labels_of(op, node, is_io):
    if is_io:
        return {type(op).__name__}
    # the register-type label in operand order, derived here (not asked from the operation): "Emitter", "Photonic-Emitter", ...
    reg_label = "-".join({"e": "Emitter", "p": "Photonic"}.get(t, "?") for t in op.q_registers_type)
    return set(op.labels) | {type(op).__name__, reg_label}


def longest_paths(dag):
    """oracle dynamic programme: number of edges on the longest path ending at each node"""
    order = list(nx.topological_sort(dag))
    dist = {}
    for v in order:
        preds = list(dag.predecessors(v))
        dist[v] = 0 if not preds else 1 + max(dist[u] for u in preds)
    return dist


def check(circ, prog=None, deep=True):
    probs = []
    dag = circ.dag
    if not nx.is_directed_acyclic_graph(dag):
        return ["the graph has a cycle"]
    regs = circ.register
    # ---------------- sources / sinks
    expected_in = {f"{t}{i}_in" for t in ("e", "p", "c") for i in range(len(regs[t]))}
    expected_out = {f"{t}{i}_out" for t in ("e", "p", "c") for i in range(len(regs[t]))}
    sources = {n for n, d in dag.in_degree() if d == 0}
    sinks = {n for n, d in dag.out_degree() if d == 0}
    if sources != expected_in:
        probs.append(f"sources {sorted(map(str, sources ^ expected_in))[:6]} differ from the register inputs")
    if sinks != expected_out:
        probs.append(f"sinks {sorted(map(str, sinks ^ expected_out))[:6]} differ from the register outputs")
    for n in expected_in | expected_out:
        if n in dag.nodes:
            nm = type(dag.nodes[n]["op"]).__name__
            if (n.endswith("_in") and nm != "Input") or (n.endswith("_out") and nm != "Output"):
                probs.append(f"node {n} carries operation {nm}")
    if probs:
        return probs
    # ---------------- every wire is one path that visits exactly the operations naming the register
    on_wire = {}
    for t in ("e", "p", "c"):
        for i in range(len(regs[t])):
            key = f"{t}{i}"
            node = f"{key}_in"
            path = [node]
            seen = {node}
            while node != f"{key}_out":
                nxt = [e for e in dag.out_edges(node, keys=True, data=True) if e[2] == key]
                if len(nxt) != 1:
                    probs.append(f"wire {key}: node {node} has {len(nxt)} outgoing edges keyed {key}")
                    break
                e = nxt[0]
                if e[3].get("reg") != i or e[3].get("reg_type") != t:
                    probs.append(f"wire {key}: edge {e[:3]} has attributes reg={e[3].get('reg')} reg_type={e[3].get('reg_type')}")
                node = e[1]
                if node in seen:
                    probs.append(f"wire {key} revisits {node}")
                    break
                seen.add(node)
                path.append(node)
            on_wire[(t, i)] = path
    if probs:
        return probs
    n_edges = sum(len(p) - 1 for p in on_wire.values())
    if dag.number_of_edges() != n_edges:
        probs.append(f"{dag.number_of_edges()} edges in the graph, {n_edges} on register wires")
    for node, data in dag.nodes(data=True):
        op = data["op"]
        if node in expected_in or node in expected_out:
            continue
        named = [(t, r) for t, r in zip(op.q_registers_type, op.q_registers)]
        for w in named:
            if w not in on_wire or node not in on_wire[w]:
                probs.append(f"operation {type(op).__name__} (node {node}) acts on {w} but is not on that wire")
        for (t, i), path in on_wire.items():
            if t != "c" and node in path and (t, i) not in named:
                probs.append(f"node {node} ({type(op).__name__} on {named}) lies on wire {t}{i}")
            if t == "c" and node in path and i not in op.c_registers:
                probs.append(f"node {node} lies on classical wire c{i} without naming it")
    # ---------------- indexes
    ed = circ.edge_dict
    for t in ("e", "p", "c"):
        have = sorted(map(str, ed.get(t, [])))
        want = sorted(str(e) for e in dag.edges(keys=True) if dag.edges[e]["reg_type"] == t)
        if have != want:
            probs.append(f"edge_dict['{t}'] has {len(have)} entries, the graph {len(want)} edges of that type "
                         f"(stale: {[x for x in have if x not in want][:3]}, missing: {[x for x in want if x not in have][:3]})")
    want_nd = {}
    for node, data in dag.nodes(data=True):
        io = node in expected_in or node in expected_out
        for lab in _labels_of(data["op"], node, io):
            want_nd.setdefault(lab, set()).add(node)
    for lab in set(want_nd) | set(circ.node_dict):
        have = circ.node_dict.get(lab, [])
        if set(have) != want_nd.get(lab, set()):
            probs.append(f"node_dict['{lab}'] = {sorted(map(str, have))[:8]} but nodes carrying it are {sorted(map(str, want_nd.get(lab, set())))[:8]}")
    # the query functions built on the indexes (asked after every edit, so a stale memo behind them shows as well)
    try:
        labs = sorted(want_nd)
        for lab in labs:
            got = set(circ.get_node_by_labels([lab]))
            if got != want_nd[lab]:
                probs.append(f"get_node_by_labels(['{lab}']) = {sorted(map(str, got))[:8]} but nodes carrying it are {sorted(map(str, want_nd[lab]))[:8]}")
                break
        for a, b in (("CNOT", "e-e"), ("one-qubit", "e"), ("CNOT", "e-p"), ("OneQubitGateWrapper", "p")):
            if a in want_nd or b in want_nd:
                want = want_nd.get(a, set()) & want_nd.get(b, set())
                got = set(circ.get_node_by_labels([a, b]))
                if got != want:
                    probs.append(f"get_node_by_labels(['{a}', '{b}']) = {sorted(map(str, got))[:8]}, the graph says {sorted(map(str, want))[:8]}")
        got = set(circ.get_node_exclude_labels(["Input", "Output"]))
        want = set(dag.nodes) - want_nd.get("Input", set()) - want_nd.get("Output", set())
        if got != want:
            probs.append(f"get_node_exclude_labels(['Input', 'Output']) has {len(got)} nodes, the graph {len(want)} operations")
    except Exception as e:
        probs.append(f"label query raises {type(e).__name__}: {e}"[:200])
    if probs:
        return probs
    # ---------------- sequence, depth
    if deep:
        seq = circ.sequence()
        ids = {}
        for node, data in dag.nodes(data=True):
            ids[id(data["op"])] = node
        pos = {}
        for k, op in enumerate(seq):
            n = ids.get(id(op))
            if n is None or n in pos:
                probs.append("sequence() contains an operation that is not (or twice) in the graph")
                break
            pos[n] = k
        else:
            if len(pos) != dag.number_of_nodes():
                probs.append(f"sequence() has {len(pos)} operations, the graph {dag.number_of_nodes()} nodes")
            for u, v in dag.edges():
                if pos[u] >= pos[v]:
                    probs.append(f"sequence() places {u} after {v}")
                    break
        dist = longest_paths(dag)
        want_depth = max(dist.values()) - 1 if dist else -1
        try:
            if circ.depth != want_depth:
                probs.append(f"depth = {circ.depth}, longest path gives {want_depth}")
            # graphiq computes register_depth by an un-memoised recursion over all paths (exponential in the number of
            # two-qubit operations), so it is only queried on small circuits
            rd = circ.register_depth if dag.number_of_nodes() <= 28 else None
            for t in ("e", "p", "c") if rd is not None else ():
                want = [dist[f"{t}{i}_out"] - 1 for i in range(len(regs[t]))]
                if list(rd[t]) != want:
                    probs.append(f"register_depth['{t}'] = {list(rd[t])}, oracle {want}")
        except Exception as e:
            probs.append(f"depth / register_depth raised {type(e).__name__}: {e}")
    # ---------------- specification
    if prog is not None and not probs:
        if (len(regs["e"]), len(regs["p"]), len(regs["c"])) != (prog.n_e, prog.n_p, prog.n_c):
            probs.append(f"register counts {(len(regs['e']), len(regs['p']), len(regs['c']))} != specification {(prog.n_e, prog.n_p, prog.n_c)}")
        else:
            for w, ids_ in prog.wires.items():
                nodes = on_wire[w][1:-1]
                got = [op_signature(dag.nodes[n]["op"]) for n in nodes]
                want = [prog.signature(prog.ops[i]) for i in ids_]
                if w[0] == "c":
                    continue  # operations placed with insert_at are not threaded on classical wires (by design of graphiq)
                if got != want:
                    probs.append(f"wire {w[0]}{w[1]}: operations {[g[0] for g in got]} differ from the specified order {[prog.ops[i].text() for i in ids_]}")
                    continue
                for n, i in zip(nodes, ids_):
                    if prog.ops[i].obj is not None and prog.ops[i].obj is not dag.nodes[n]["op"]:
                        probs.append(f"wire {w[0]}{w[1]}: node {n} holds a different operation object than the one placed there ({prog.ops[i].text()})")
                        break
    return probs


def op_signature(op):
    name = type(op).__name__
    q = tuple(zip(op.q_registers_type, op.q_registers))
    c = op.c_registers[0] if len(op.c_registers) else None
    gates = tuple(g.__name__ for g in op.operations) if name == "OneQubitGateWrapper" else None
    return (name, q, c, gates)


EDITS = ["add", "insert_at", "replace_op", "remove_op", "unwrap_nodes", "group_one_qubit_gates", "remove_identity",
         "_add_register", "assign_noise", "from_openqasm", "from_json"]


class DagMonitor:
    """re-check the invariants after every public edit of any CircuitDAG (outermost edit only)"""

    def __init__(self, report, count=None, deep=False):
        self.report, self.count, self.deep = report, count or (lambda *a, **k: None), deep
        self.depth = 0
        self.enabled = True

    def install(self):
        from graphiq.circuit.circuit_dag import CircuitDAG
        for name in EDITS:
            fn = getattr(CircuitDAG, name)
            probes.hook(fn, self._start, lambda fr, ret, name=name: self._ret(fr, ret, name), lambda fr, exc, name=name: self._unwind(fr, exc, name))

    def _start(self, frame):
        self.depth += 1

    def _obj(self, frame, ret, name):
        if name in ("from_openqasm", "from_json", "assign_noise"):
            return ret
        return frame.f_locals.get("self")

    def _ret(self, frame, ret, name):
        self.depth -= 1
        if self.depth or not self.enabled:
            return
        circ = self._obj(frame, ret, name)
        if circ is None:
            return
        self.count("dag:edit:" + name)
        probs = check(circ, deep=self.deep)
        if probs:
            self.report("dag_inconsistent_after_" + name, {"edit": name, "problems": probs[:5]})

    def _unwind(self, frame, exc, name):
        self.depth -= 1
        if self.depth or not self.enabled:
            return
        circ = frame.f_locals.get("self")
        if circ is None or name in ("from_openqasm", "from_json"):
            return
        self.count("dag:edit_raised:" + name)
        try:
            probs = check(circ, deep=False)
        except Exception as e:
            probs = [f"checker could not walk the circuit: {type(e).__name__}: {e}"]
        if probs:
            self.report("dag_inconsistent_after_failed_" + name, {"edit": name, "exception": f"{type(exc).__name__}: {exc}"[:200], "problems": probs[:5]})
