"""Path-signature probe for the time-reversed solver (C02 / C03 workload selection and evidence).

Every call of TimeReversedSolver._single_out_emitter (the time-reversed measurement) is observed at entry; its signature is
  (number of emitters, Pauli letter of the chosen generator on every emitter, sign bit of the generator, chosen emitter).
The set of signatures reached is a measure of which solver paths a workload drove; /verif/corpus/c02_trs_paths.json keeps, for
every signature seen on the pinned tree over all connected 6-vertex graphs and a sample of larger ones, the smallest targets
that reach it (tools/build_corpus.py), so that the quick tier drives every known path on every run."""
from .. import probes


class PathProbe:
    def __init__(self, count=None):
        self.count = count or (lambda *a, **k: None)
        self.seen = set()
        self.current = []

    def install(self):
        from graphiq.solvers.time_reversed_solver import TimeReversedSolver
        probes.hook(TimeReversedSolver._single_out_emitter, self._start, None)
        return self

    def _start(self, frame):
        loc = frame.f_locals
        s, tab, gi, ei = loc.get("self"), loc.get("tableau"), loc.get("generator_index"), loc.get("emitter_index")
        try:
            n_p, n_e = int(s.n_photon), int(s.n_emitter)
            x = tab.x_matrix[gi]
            z = tab.z_matrix[gi]
            letters = "".join("IZXY"[int(z[n_p + i]) + 2 * int(x[n_p + i])] for i in range(n_e))
            sig = f"{n_e}:{letters}:{int(tab.phase[gi])}:{int(ei)}"
        except Exception:
            sig = "unreadable"
        self.seen.add(sig)
        self.current.append(sig)
        self.count("trs_path:" + ("multi_emitter_generator" if sum(c != "I" for c in sig.split(":")[1]) >= 2 else "single_emitter_generator"))

    def take(self):
        c, self.current = self.current, []
        return c
