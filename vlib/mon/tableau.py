"""Tableau monitor (C07): sys.monitoring probes on every tableau primitive of the tree under test.

On entry of a hooked function the tableau argument is snapshotted; on return the result is checked against
  (1) structural invariants (binary, shapes, symplectic with destabilizer i paired to stabilizer i, real stabilizer signs)
  (2) the transition the operation denotes, computed by the independent Pauli algebra (vlib.ref.pauli), signs included.
Violations are reported through a callback; nothing graphiq computes is used as judge.
Works for CliffordTableau (full checks) and StabilizerTableau (group tracking only)."""
import numpy as np

from .. import probes
from ..ref import pauli


class Snap:
    __slots__ = ("kind", "n", "table", "phase", "iphase")

    def __init__(self, tab):
        cls = type(tab).__name__
        self.n = int(tab.n_qubits)
        self.table = np.array(tab.table).copy()
        self.phase = np.array(tab.phase).copy()
        if cls == "CliffordTableau":
            self.kind = "c"
            self.iphase = np.array(tab.iphase).copy()
        else:
            self.kind = "s"
            self.iphase = None

    def group(self):
        n = self.n
        t = self.table.astype(np.int64)
        if self.kind == "c":
            return pauli.PTab.from_graphiq(t[n:, :n], t[n:, n:], self.phase[n:], self.iphase[n:])
        return pauli.PTab.from_graphiq(t[:, :n], t[:, n:], self.phase)

    def problems(self):
        if self.kind == "c":
            return pauli.check_clifford_tableau(self.table, self.phase, self.iphase, self.n)
        probs = []
        n = self.n
        if self.table.shape != (n, 2 * n) or self.phase.shape != (n,):
            return [f"stabilizer tableau shapes {self.table.shape} {self.phase.shape} for n={n}"]
        if np.any((self.table != 0) & (self.table != 1)) or np.any((self.phase != 0) & (self.phase != 1)):
            probs.append("entries outside {0,1}")
            return probs
        g = self.group()
        if not g.is_abelian():
            probs.append("stabilizer generators do not commute")
        if g.rank() != n:
            probs.append("stabilizer generators dependent")
        return probs

    def to_json(self):
        return {"kind": self.kind, "n": self.n, "table": self.table.tolist(), "phase": self.phase.tolist(),
                "iphase": None if self.iphase is None else self.iphase.tolist()}


def is_tableau(o):
    return type(o).__name__ in ("CliffordTableau", "StabilizerTableau")


GATES = {
    "hadamard_gate": lambda g, a: g.h(a[0]),
    "phase_gate": lambda g, a: g.s(a[0]),
    "phase_dagger_gate": lambda g, a: g.sdg(a[0]),
    "x_gate": lambda g, a: g.x(a[0]),
    "y_gate": lambda g, a: g.y(a[0]),
    "z_gate": lambda g, a: g.z(a[0]),
    "cnot_gate": lambda g, a: g.cnot(a[0], a[1]),
    "control_z_gate": lambda g, a: g.cz(a[0], a[1]),
    "control_y_gate": lambda g, a: (g.sdg(a[1]), g.cnot(a[0], a[1]), g.s(a[1])),
    "swap_gate": lambda g, a: g.swap(a[0], a[1]),
    "identity": lambda g, a: None,
}


def same(a, b):
    return pauli.same_group_fast(a, b)


def expected_after_reset_z(G, q, intended, observed_random=None):
    kind, out = G.measure_z_info(q)
    if kind == "random":
        return G.after_measure_z(q, intended), kind
    e = G.copy()
    if out != intended:
        e.x(q)
    return e, kind


def removal_candidates(G, q, det):
    """possible stabilizer groups of the remaining qubits after removing qubit q"""
    n = G.n
    keep = [j for j in range(n) if j != q]
    if G.entropy_cut([q]) == 0:
        return [G.restrict_to(keep)], True
    outs = [0, 1] if det not in (0, 1) else [det]
    kind, out = G.measure_z_info(q)
    if kind == "det":  # cannot happen for an entangled qubit, kept for completeness
        outs = [out]
    return [G.after_measure_z(q, m).restrict_to(keep) for m in outs], False


class TableauMonitor:
    """attach with .install(); report(kind, detail) is called for every refutation"""

    def __init__(self, report, count=None, deep_dense=False):
        self.report = report
        self.count = count or (lambda *a, **k: None)
        self.stack = []
        self.enabled = True
        self.installed = []

    # ------------------------------------------------------------------ plumbing
    def install(self):
        import graphiq.backends.stabilizer.functions.transformation as tr
        import graphiq.backends.stabilizer.functions.clifford as cl
        import graphiq.backends.stabilizer.functions.stabilizer as st
        for name in GATES:
            mod = cl if name == "swap_gate" else tr
            self._hook(getattr(mod, name), name)
        for name in ("z_measurement_gate", "measure_x", "measure_y", "measure_z", "reset_z", "reset_x", "reset_y",
                     "insert_qubit", "add_qubit", "remove_qubit", "partial_trace", "tensor",
                     "create_n_ket0_state", "create_n_ket1_state", "create_n_plus_state"):
            self._hook(getattr(cl, name), name)
        for name, alias in (("insert_qubit", "s_insert_qubit"), ("rref", "rref"), ("canonical_form", "canonical_form"),
                            ("tab_row_sum", "tab_row_sum"), ("tab_row_swap", "tab_row_swap")):
            self._hook(getattr(st, name), alias)

    def _hook(self, fn, name):
        def on_start(frame, name=name):
            if not self.enabled:
                self.stack.append(None)
                return
            self.stack.append(self._entry(name, frame))

        def on_return(frame, ret, name=name):
            ent = self.stack.pop() if self.stack else None
            if ent is not None and self.enabled:
                self._check(name, ent, ret)

        def on_unwind(frame, exc, name=name):
            ent = self.stack.pop() if self.stack else None
            if ent is not None and self.enabled:
                self._raised(name, ent, exc)

        self.installed.append(probes.hook(fn, on_start, on_return, on_unwind))

    def uninstall(self):
        for c in self.installed:
            probes.unhook(c)
        self.installed = []

    # ------------------------------------------------------------------ entry snapshots
    def _entry(self, name, frame):
        loc = frame.f_locals
        if name == "tensor":
            tabs = loc.get("list_of_tables")
            return {"snaps": [Snap(t) for t in tabs], "args": ()}
        if name.startswith("create_n_"):
            return {"args": (loc.get("n_qubits"),)}
        tab = loc.get("tableau")
        if not is_tableau(tab):
            return None
        argnames = {
            "hadamard_gate": ("qubit_position",), "phase_gate": ("qubit_position",), "phase_dagger_gate": ("qubit_position",),
            "x_gate": ("qubit_position",), "y_gate": ("qubit_position",), "z_gate": ("qubit_position",),
            "cnot_gate": ("ctrl_qubit", "target_qubit"), "control_z_gate": ("ctrl_qubit", "target_qubit"),
            "control_y_gate": ("ctrl_qubit", "target_qubit"), "swap_gate": ("qubit1", "qubit2"), "identity": (),
            "z_measurement_gate": ("qubit_position", "measurement_determinism"),
            "measure_x": ("qubit_position", "measurement_determinism"), "measure_y": ("qubit_position", "measurement_determinism"),
            "measure_z": ("qubit_position", "measurement_determinism"),
            "reset_z": ("qubit_position", "intended_state", "measurement_determinism"),
            "reset_x": ("qubit_position", "intended_state", "measurement_determinism"),
            "reset_y": ("qubit_position", "intended_state", "measurement_determinism"),
            "insert_qubit": ("new_position",), "s_insert_qubit": ("new_position",), "add_qubit": (),
            "remove_qubit": ("qubit_position", "measurement_determinism"),
            "partial_trace": ("keep", "dims", "measurement_determinism"),
            "rref": (), "canonical_form": (), "tab_row_sum": ("row_to_add", "target_row"), "tab_row_swap": ("first_row", "second_row"),
        }[name]
        args = []
        for a in argnames:
            v = loc.get(a)
            if isinstance(v, (np.integer,)):
                v = int(v)
            if a == "keep" and v is not None:
                v = sorted(int(x) for x in v)
            args.append(v)
        return {"snap": Snap(tab), "args": tuple(args), "tab": tab}

    # ------------------------------------------------------------------ verdicts
    def _viol(self, name, ent, kind, extra):
        d = {"function": name, "args": [a if isinstance(a, (int, str, list, type(None))) else repr(a) for a in ent.get("args", ())]}
        if "snap" in ent:
            d["before"] = ent["snap"].to_json() if ent["snap"].n <= 12 else {"n": ent["snap"].n}
            d["before_stabilizers"] = ent["snap"].group().labels() if ent["snap"].n <= 12 else "..."
        d.update(extra)
        self.report(kind, d)

    def _raised(self, name, ent, exc):
        # an exception inside a tableau primitive called with in-range arguments: the operation promised a result
        if isinstance(exc, (KeyboardInterrupt, SystemExit)):
            return
        self.count("tableau:raised:" + name)
        if "snap" in ent and ent["snap"].problems():
            self.count("tableau:garbage_in")
            return
        args = ent.get("args", ())
        n = ent["snap"].n if "snap" in ent else None
        in_range = True
        if n is not None:
            for a in args[:2]:
                if isinstance(a, int) and not (0 <= a <= n):
                    in_range = False
        if name in ("cnot_gate", "control_z_gate", "control_y_gate") and len(args) >= 2 and args[0] == args[1]:
            in_range = False
        if in_range:
            self._viol(name, ent, "tableau_op_raises", {"exception": f"{type(exc).__name__}: {exc}"[:300]})

    def _after(self, ret, ent):
        """tableau object after the call: the return value if it is a tableau, else the (mutated) argument"""
        if is_tableau(ret):
            return ret
        if isinstance(ret, tuple) and ret and is_tableau(ret[0]):
            return ret[0]
        return ent.get("tab")

    def _check(self, name, ent, ret):
        self.count("tableau:" + name)
        if name.startswith("create_n_"):
            n = ent["args"][0]
            after = Snap(ret)
            probs = after.problems()
            exp = pauli.PTab.zero_state(n)
            if name == "create_n_ket1_state":
                for q in range(n):
                    exp.x(q)
            elif name == "create_n_plus_state":
                for q in range(n):
                    exp.h(q)
            if probs:
                self._viol(name, ent, "tableau_invalid", {"problems": probs})
            elif not same(after.group(), exp):
                self._viol(name, ent, "tableau_wrong_state", {"got": after.group().labels()[:12]})
            return
        if name == "tensor":
            after = Snap(ret)
            probs = after.problems()
            exp = None
            for s in ent["snaps"]:
                exp = s.group() if exp is None else exp.tensor(s.group())
            if probs:
                self._viol(name, ent, "tableau_invalid", {"problems": probs, "parts": [s.to_json() for s in ent["snaps"] if s.n <= 6]})
            elif not same(after.group(), exp):
                self._viol(name, ent, "tableau_wrong_state", {"got": after.group().labels()[:12], "expected": exp.labels()[:12],
                                                              "parts": [s.to_json() for s in ent["snaps"] if s.n <= 6]})
            return
        before = ent["snap"]
        if before.problems():
            self.count("tableau:garbage_in")
            return  # garbage in: nothing is promised (e.g. a benchmark helper that overwrites only the stabilizer half)
        args = ent["args"]
        if name in ("cnot_gate", "control_z_gate", "control_y_gate") and len(args) >= 2 and args[0] == args[1]:
            self.count("tableau:undefined_arguments")
            return  # a two-qubit gate of a qubit with itself denotes nothing: the caller that asked for it is judged instead
        tab_after = self._after(ret, ent)
        after = Snap(tab_after)
        probs = after.problems()
        if probs:
            self._viol(name, ent, "tableau_invalid", {"problems": probs, "after": after.to_json() if after.n <= 12 else {"n": after.n}})
            return
        G = before.group()
        got = after.group()

        def wrong(exp, why=""):
            self._viol(name, ent, "tableau_wrong_state",
                       {"why": why, "got": got.labels()[:16], "expected": exp.labels()[:16] if exp is not None else None,
                        "after": after.to_json() if after.n <= 12 else {"n": after.n}})

        if name in GATES:
            exp = G.copy()
            GATES[name](exp, args)
            # fast path: generator-by-generator conjugation; authoritative path: group comparison
            if not (np.array_equal(exp.X, got.X) and np.array_equal(exp.Z, got.Z) and np.array_equal(exp.K, got.K)):
                if not same(exp, got):
                    wrong(exp)
            return
        if name in ("rref", "canonical_form", "tab_row_sum", "tab_row_swap"):
            if not same(G, got):
                wrong(G, "row operation changed the state")
            return
        if name == "z_measurement_gate":
            q, det = args
            outcome = int(ret[1])
            kind, out = G.measure_z_info(q)
            self.count("tableau:measure:" + kind)
            if kind == "det":
                if outcome != out:
                    self._viol(name, ent, "measurement_outcome_wrong", {"outcome": outcome, "forced_by_state": out})
                if not same(G, got):
                    wrong(G, "deterministic measurement changed the state")
            else:
                if outcome not in (0, 1) or (det in (0, 1) and outcome != det):
                    self._viol(name, ent, "measurement_outcome_wrong", {"outcome": outcome, "setting": repr(det), "state": "random"})
                    return
                exp = G.after_measure_z(q, outcome)
                if not same(exp, got):
                    wrong(exp, "post-measurement state")
            return
        if name in ("measure_x", "measure_y", "measure_z"):
            # only the returned outcome is specified (the functions hand back no tableau)
            q, det = args
            H = G.copy()
            if name == "measure_x":
                H.h(q)
            elif name == "measure_y":
                H.sdg(q)
                H.h(q)
            kind, out = H.measure_z_info(q)
            outcome = int(ret)
            if (kind == "det" and outcome != out) or (kind == "random" and det in (0, 1) and outcome != det):
                self._viol(name, ent, "measurement_outcome_wrong", {"outcome": outcome, "kind": kind, "expected": out, "setting": repr(det)})
            return
        if name in ("reset_z", "reset_x", "reset_y"):
            q, intended, det = args
            exp, kind = expected_after_reset_z(G, q, intended)
            if name in ("reset_x", "reset_y"):
                exp.h(q)
            if name == "reset_y":
                exp.s(q)
            if not same(exp, got):
                wrong(exp, f"reset ({kind} measurement)")
            return
        if name in ("insert_qubit", "s_insert_qubit", "add_qubit"):
            pos = args[0] if name != "add_qubit" else before.n
            exp = G.insert_qubit_zero(pos)
            if after.n != before.n + 1 or not same(exp, got):
                wrong(exp, "inserted qubit must be an unentangled |0> at the requested position")
            return
        if name == "remove_qubit":
            q, det = args
            cands, unent = removal_candidates(G, q, det)
            self.count("tableau:remove:" + ("unentangled" if unent else "entangled"))
            if after.n != before.n - 1 or not any(same(c, got) for c in cands):
                wrong(cands[0], "unentangled qubit removed: the others must be unchanged" if unent else
                      "entangled qubit removed: result must be a post-measurement state of the others")
            return
        if name == "partial_trace":
            keep, dims, det = args
            if len(keep) == before.n:
                if not same(G, got):
                    wrong(G, "partial trace keeping everything")
                return
            if G.entropy_cut(keep) == 0:
                self.count("tableau:ptrace:unentangled")
                exp = G.restrict_to(keep)
                if after.n != len(keep) or not same(exp, got):
                    wrong(exp, "tracing out unentangled qubits must leave the others unchanged")
            else:
                self.count("tableau:ptrace:entangled")
                if after.n != len(keep):
                    wrong(None, "wrong number of qubits kept")
            return
