"""Does a circuit generate a given photonic target state exactly, whatever its measurement outcomes?  (C02, C10)

1. the circuit is read off its DAG (vlib.gen.programs.program_from_circuit) after vlib.mon.dag.check passed;
2. ALL outcome branches are enumerated by the reference semantics alone: every branch must end in
   target (x) |0..0>_emitters (photons are indexed first);
3. the real compilers are run under forced 0 / forced 1 / probabilistic outcomes with the lock-step compile monitor."""
import numpy as np

from ..gen import programs
from ..ref import circsim, dense, pauli
from . import dag as dagmon
from .compile import judge


def expected_state(target_group, n_e):
    """target (x) |0..0>: returns (rho or None, group)"""
    g = target_group.tensor(pauli.PTab.zero_state(n_e)) if n_e else target_group.copy()
    n = g.n
    rho = dense.projector_of_group(g) if n <= 7 else None
    return rho, g


def check(circ, target_group, m, mon, np_seed=0, max_branches=64, backends=("StabilizerCompiler", "DensityMatrixCompiler"), count=None):
    """returns list of (kind, detail)"""
    count = count or (lambda *a, **k: None)
    out = []
    try:
        circ.validate()
    except Exception as e:
        return [("circuit_fails_validate", {"exception": f"{type(e).__name__}: {e}"[:200]})]
    probs = dagmon.check(circ, None, deep=False)
    if probs:
        return [("circuit_dag_inconsistent", {"problems": probs[:4]})]
    prog = programs.program_from_circuit(circ)
    n_p, n_e = prog.n_p, prog.n_e
    if n_p != target_group.n:
        return [("photon_count_differs_from_target", {"n_photons": n_p, "target_qubits": target_group.n})]
    n = n_p + n_e
    exp_rho, exp_group = expected_state(target_group, n_e)
    order = prog.linear_extension()
    # ---- all branches, reference only
    nb = 0
    for outs, prob, st in circsim.branches(prog.ops, n_p, n_e, prog.n_c, order, max_branches=max_branches):
        nb += 1
        ok = np.allclose(st.rho, exp_rho, atol=1e-8, rtol=0) if st.rho is not None else pauli.same_group_fast(st.group, exp_group)
        if not ok:
            got = st.group.labels()[:10] if st.group is not None else None
            out.append(("outcome_branch_does_not_give_target", {"outcomes": {str(k): v for k, v in outs.items()}, "branch_probability": prob,
                                                              "final_stabilizers": got, "expected": exp_group.labels()[:10],
                                                              "program": prog.text()}))
            break
    count("generates:branches", nb)
    if out:
        return out
    # ---- real compilers
    for backend in backends:
        if backend == "DensityMatrixCompiler" and n > 6:
            continue
        for det in (0, 1, "probabilistic"):
            comp = m[backend]()
            comp.measurement_determinism = det
            np.random.seed((np_seed + (7 if det == "probabilistic" else 0)) % (2 ** 31))
            mon.pop_runs()
            try:
                comp.compile(circ)
            except Exception:
                pass
            runs = mon.pop_runs()
            count("generates:compiles")
            if not runs:
                out.append(("monitor_saw_no_compile", {}))
                continue
            v = judge(prog, runs[0], None, check_each=(n <= 5))
            if v:
                out.append((v[0][0], {"backend": backend, "setting": repr(det), **v[0][1], "program": prog.text()}))
                return out
            ref = runs[0].ref
            ok = np.allclose(ref.rho, exp_rho, atol=1e-8, rtol=0) if ref.rho is not None else pauli.same_group_fast(ref.group, exp_group)
            if not ok:
                out.append(("compiled_state_is_not_target", {"backend": backend, "setting": repr(det), "program": prog.text()}))
                return out
    return out
