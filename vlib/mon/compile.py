"""Compile lock-step monitor (C01; reused by C02, C06, C10, C13, C14, C15, C20).

Probes (sys.monitoring) on CompilerBase.compile, both compile_one_gate methods, the measurement primitives of the three
state classes and the noise hooks record, for every compile run, the exact sequence of operations the backend executed,
the outcome each measurement produced, and a deep copy of the backend state and of the (otherwise discarded) classical
register array after every operation.  `judge()` replays that trace against the reference semantics (vlib.ref.circsim)
of the harness' own program specification."""
import numpy as np

from .. import probes
from ..ref import circsim, dense, pauli
from ..gen.programs import CLS
from .tableau import Snap


def snap_state(rep):
    name = type(rep).__name__
    if name == "DensityMatrix":
        return ("dm", np.array(rep.data).copy())
    if name == "Stabilizer":
        return ("s", Snap(rep.tableau))
    if name == "MixedStabilizer":
        return ("ms", [(float(p), Snap(t)) for p, t in rep.mixture])
    return ("?", None)


class Run:
    def __init__(self):
        self.compiler = None
        self.det = None
        self.noise_sim = None
        self.events = []          # dicts: op, cls, outcome(s), state, creg, noise
        self.final_creg = None
        self.final_state = None
        self.raised = None
        self.circuit = None
        self.initial = None


class CompileMonitor:
    def __init__(self, count=None, snapshots=True, snap_before=False):
        self.snap_before = snap_before
        self.count = count or (lambda *a, **k: None)
        self.runs = []
        self.cur = None
        self.open = []
        self.snapshots = snapshots
        self.installed = False

    def install(self):
        if self.installed:
            return
        self.installed = True
        from graphiq.backends.compiler_base import CompilerBase
        from graphiq.backends.stabilizer.compiler import StabilizerCompiler
        from graphiq.backends.density_matrix.compiler import DensityMatrixCompiler
        from graphiq.backends.stabilizer.state import Stabilizer, MixedStabilizer
        from graphiq.backends.density_matrix.state import DensityMatrix
        probes.hook(CompilerBase.compile, self._c_start, self._c_ret, self._c_unwind)
        for cls in (StabilizerCompiler, DensityMatrixCompiler):
            probes.hook(cls.compile_one_gate, self._g_start, self._g_ret, self._g_unwind)
            probes.hook(cls._apply_additional_noise, self._n_start, None)
            probes.hook(cls.compile_one_noisy_gate, self._rn_start, None)
        for cls in (Stabilizer, MixedStabilizer, DensityMatrix):
            probes.hook(cls.apply_measurement, None, self._m_ret)

    # ---- compile
    def _c_start(self, frame):
        r = Run()
        loc = frame.f_locals
        comp = loc.get("self")
        r.compiler = type(comp).__name__
        r.det = getattr(comp, "_measurement_determinism", None)
        r.noise_sim = getattr(comp, "_noise_simulation", None)
        r.circuit = loc.get("circuit")
        r.initial = loc.get("initial_state")
        self.cur = r
        self.runs.append(r)
        self.open = []

    def _c_ret(self, frame, ret):
        r = self.cur
        if r is None:
            return
        cr = frame.f_locals.get("classical_registers")
        r.final_creg = None if cr is None else np.array(cr).copy()
        try:
            r.final_state = snap_state(ret.rep_data)
        except Exception:
            r.final_state = ("?", None)
        self.cur = None

    def _c_unwind(self, frame, exc):
        if self.cur is not None:
            self.cur.raised = exc
            self.cur = None

    # ---- one gate
    def _g_start(self, frame):
        if self.cur is None:
            self.open.append(None)
            return
        op = frame.f_locals.get("op")
        ev = {"op": op, "cls": type(op).__name__, "outcomes": [], "state": None, "creg": None, "kind": "gate"}
        if self.snap_before:
            st = frame.f_locals.get("state")
            ev["state_before"] = snap_state(st.rep_data) if hasattr(st, "rep_data") else None
        self.open.append(ev)

    def _g_ret(self, frame, ret):
        ev = self.open.pop() if self.open else None
        if ev is None or self.cur is None:
            return
        self.count("compile:ops_observed")
        loc = frame.f_locals
        if self.snapshots:
            st = loc.get("state")
            ev["state"] = snap_state(st)
        cr = loc.get("classical_registers")
        ev["creg"] = None if cr is None else np.array(cr).copy()
        self.cur.events.append(ev)

    def _g_unwind(self, frame, exc):
        ev = self.open.pop() if self.open else None
        if ev is not None and self.cur is not None:
            ev["raised"] = exc
            self.cur.events.append(ev)

    def _m_ret(self, frame, ret):
        if self.open and self.open[-1] is not None:
            self.open[-1]["outcomes"].append(ret)

    # ---- noise (used by C06)
    def _n_start(self, frame):
        if self.cur is None:
            return
        op = frame.f_locals.get("op")
        noise = getattr(op, "noise", None)
        self.cur.events.append({"kind": "noise", "op": op, "cls": type(op).__name__, "noise": list(noise) if isinstance(noise, list) else noise})

    def _rn_start(self, frame):
        if self.cur is None:
            return
        op = frame.f_locals.get("op")
        self.cur.events.append({"kind": "replacement_noise", "op": op, "cls": type(op).__name__, "noise": getattr(op, "noise", None)})

    def pop_runs(self):
        r, self.runs = self.runs, []
        return r


# ---------------------------------------------------------------------------------------------- matching executed ops to the spec
class Mismatch(Exception):
    pass


def _regs_of(op):
    return list(zip(op.q_registers_type, op.q_registers))


def match(prog, run):
    """assign every executed operation to a specification operation, checking that the executed order is a linear
    extension of the per-register program order.  Returns [(spec_op, subgate_name_or_None, event)] for gate events."""
    ptr = {w: 0 for w in prog.wires}
    sub = {}                                # spec id -> number of wrapper gates already seen
    out = []
    for ev in run.events:
        if ev.get("kind") != "gate":
            continue
        op, cls = ev["op"], ev["cls"]
        if cls in ("Input", "Output"):
            continue
        regs = _regs_of(op)
        w0 = regs[0]
        if w0 not in prog.wires or ptr[w0] >= len(prog.wires[w0]):
            raise Mismatch(f"executed {cls} on {regs}: nothing left on wire {w0} in the specification")
        sid = prog.wires[w0][ptr[w0]]
        sp = prog.ops[sid]
        if sp.kind == "W":
            k = sub.get(sid, 0)
            exp = list(reversed(sp.gates))       # last listed acts first
            wn = getattr(sp, "noise", None)
            if isinstance(wn, tuple) and wn and wn[0] == "single":
                # one noise object for the whole wrapper: unwrap() adds an Identity that carries it, executed before the first
                # gate ("before") or after the last one ("after")
                exp = (exp + ["I*"]) if wn[1][2] else (["I*"] + exp)
            want_cls = "Identity" if exp[k] == "I*" else CLS[exp[k]]
            if regs != sp.q or cls != want_cls:
                raise Mismatch(f"wrapper {sp.text()}: position {k} executed {cls} on {regs}, expected {want_cls} (last listed gate first)")
            out.append((sp, exp[k], ev))
            sub[sid] = k + 1
            if k + 1 == len(exp):
                ptr[w0] += 1
            continue
        if cls != CLS[sp.kind] or regs != sp.q:
            raise Mismatch(f"executed {cls} on {regs} but next on wire {w0} is {sp.text()}")
        c_exec = tuple(getattr(op, "c_registers", ()))
        if (sp.c is not None and c_exec != (sp.c,)) or (sp.c is None and c_exec):
            raise Mismatch(f"{sp.text()}: executed with classical registers {c_exec}")
        for w in sp.q:
            if prog.wires[w][ptr[w]] != sid:
                raise Mismatch(f"{sp.text()} executed before {prog.ops[prog.wires[w][ptr[w]]].text()} which precedes it on wire {w}")
        if sp.c is not None and sid in prog.wires[("c", sp.c)]:
            cw = ("c", sp.c)
            if prog.wires[cw][ptr[cw]] != sid:
                raise Mismatch(f"{sp.text()} executed before {prog.ops[prog.wires[cw][ptr[cw]]].text()} which precedes it on classical wire c{sp.c}")
            ptr[cw] += 1
        for w in sp.q:
            ptr[w] += 1
        out.append((sp, None, ev))
    for w, p in ptr.items():
        if p != len(prog.wires[w]):
            raise Mismatch(f"wire {w}: {len(prog.wires[w]) - p} specified operations were never executed, first {prog.ops[prog.wires[w][p]].text()}")
    return out


class _Sub:
    """a single gate of a wrapper as a pseudo SpecOp"""
    def __init__(self, kind, q):
        self.kind, self.q, self.c, self.gates, self.id = kind, q, None, None, -1


def state_matches(snap, ref, tol=1e-8):
    """compare a backend snapshot with the reference state; returns (ok, detail)"""
    kind, data = snap
    if kind == "dm":
        if ref.rho is None:
            return True, None
        if data.shape != ref.rho.shape:
            return False, f"shape {data.shape}"
        if not np.all(np.isfinite(data)):
            return False, "state contains NaN/inf"
        d = float(np.max(np.abs(data - ref.rho)))
        return d <= tol, f"max |rho - ref| = {d:.3g}"
    if kind == "s":
        probs = data.problems()
        if probs:
            return False, "invalid tableau: " + "; ".join(probs)
        if ref.group is not None:
            if not pauli.same_group_fast(data.group(), ref.group):
                return False, f"stabilizer group {data.group().labels()[:8]} != reference {ref.group.labels()[:8]}"
        elif ref.rho is not None:
            if not np.allclose(dense.projector_of_group(data.group()), ref.rho, atol=tol, rtol=0):
                return False, "stabilizer state differs from dense reference"
        return True, None
    if kind == "ms":
        # a mixture: one component of weight 1 is judged like a pure stabilizer state; several components through the dense sum
        comps = [(p, sn) for p, sn in data]
        for p, sn in comps:
            probs = sn.problems()
            if probs:
                return False, "invalid tableau in the mixture: " + "; ".join(probs)
        if len(comps) == 1 and abs(comps[0][0] - 1) < 1e-9:
            return state_matches(("s", comps[0][1]), ref, tol)
        if ref.rho is not None:
            rho = sum(p * dense.projector_of_group(sn.group()) for p, sn in comps)
            d = float(np.max(np.abs(rho - ref.rho)))
            return d <= tol, f"max |mixture - ref| = {d:.3g}"
        return True, None
    return True, None


def judge(prog, run, initial=None, check_each=True):
    """replay one observed compile run against the reference. returns list of (kind, detail) refutations"""
    viol = []
    if run.raised is not None:
        return [("compile_raises", {"exception": f"{type(run.raised).__name__}: {run.raised}"[:300]})]
    try:
        seq = match(prog, run)
    except Mismatch as e:
        return [("execution_order_or_dispatch", {"problem": str(e)})]
    ref = circsim.RefState(prog.n_p, prog.n_e, prog.n_c,
                           rho0=None if initial is None else initial.get("rho"),
                           group0=None if initial is None else initial.get("group"))
    det = run.det
    trace = []
    for step, (sp, g, ev) in enumerate(seq):
        if ev.get("raised") is not None:
            viol.append(("operation_raises", {"op": sp.text(), "exception": f"{type(ev['raised']).__name__}: {ev['raised']}"[:300]}))
            return viol
        trace.append(sp.text() + (f" /{g}" if g else ""))
        try:
            if g is not None:
                if g != "I*":                 # "I*": the carrier Identity of a wrapper-level noise object
                    ref.apply(_Sub(g, sp.q))
            elif sp.kind in ("MZ", "MR", "cCNOT", "cCZ"):
                outs = ev["outcomes"]
                if len(outs) < 1:
                    viol.append(("no_measurement_observed", {"op": sp.text()}))
                    return viol
                m = outs[0]
                if isinstance(m, list):
                    m = m[0]
                m = int(m)
                p = ref.probs(ref.q(sp.q[0]))
                exp = circsim.expected_forced_outcome(p, det)
                if p[m] < circsim.EPS:
                    viol.append(("impossible_outcome", {"op": sp.text(), "step": step, "outcome": m, "reference_probabilities": list(p), "trace": trace[-12:]}))
                    return viol
                if exp is not None and m != exp:
                    viol.append(("forced_outcome_not_respected", {"op": sp.text(), "step": step, "outcome": m, "setting": det, "reference_probabilities": list(p)}))
                    return viol
                ref.apply(sp, m)
                ev["_m"] = m
                ev["_p"] = p
            else:
                ref.apply(sp)
        except circsim.Impossible as e:
            viol.append(("impossible_outcome", {"op": sp.text(), "step": step, "problem": str(e)}))
            return viol
        if check_each and ev.get("state") is not None:
            ok, why = state_matches(ev["state"], ref)
            if not ok:
                viol.append(("state_diverges_after_operation", {"op": sp.text() + (f" /{g}" if g else ""), "step": step, "problem": why,
                                                               "trace": trace[-12:], "backend": run.compiler, "setting": repr(det)}))
                return viol
        if ev.get("creg") is not None and len(ref.creg) and not np.array_equal(np.asarray(ev["creg"]).astype(int), np.array(ref.creg)):
            viol.append(("classical_record_wrong", {"op": sp.text(), "step": step, "registers": np.asarray(ev["creg"]).tolist(),
                                                    "expected": list(ref.creg), "backend": run.compiler}))
            return viol
    if run.final_state is not None:
        ok, why = state_matches(run.final_state, ref)
        if not ok:
            viol.append(("final_state_wrong", {"problem": why, "backend": run.compiler, "setting": repr(det), "trace": trace[-12:]}))
    if run.final_creg is not None and len(ref.creg) and not np.array_equal(np.asarray(run.final_creg).astype(int), np.array(ref.creg)):
        viol.append(("final_classical_record_wrong", {"registers": np.asarray(run.final_creg).tolist(), "expected": list(ref.creg), "backend": run.compiler}))
    run.ref = ref
    run.outcomes = {sp.id: ev.get("_m") for sp, g, ev in seq if ev.get("_m") is not None}
    return viol
