"""C20 - the single-qubit Clifford library is complete, closed and consistently ordered.
Exhaustive over the finite group: 24 entries, 24x24 products, all words over {I,H,P,X,Y,Z} up to length L, all 24
wrappers (+ sampled longer wrappers incl. P_dag) x register type x backend x input states; non-Clifford rejections."""
import itertools
import numpy as np

from ..ref import dense, pauli

ID = "C20"
LEVEL = "exploration"
EXHAUSTIVE = {"quick": True, "thorough": True}
EXHAUSTIVE_SUBSPACES = {
    "quick": ["the 24 enumerated gates", "all 24x24 products", "all words over {I,H,P,X,Y,Z} of length <= 5",
              "all 24 wrappers x {e,p} x {dm,stabilizer} x 7 input preparations x {default noise, one wrapper-level noise object}"],
    "thorough": ["the 24 enumerated gates", "all 24x24 products", "all words over {I,H,P,X,Y,Z} of length <= 7",
                 "all 24 wrappers x {e,p} x {dm,stabilizer} x 7 input preparations"],
}
RULE = ("finite space enumerated completely (see exhaustive_subspaces) plus sampled wrapper words of length 1..6 that "
        "include PhaseDagger, and sampled non-Clifford unitaries (T, sqrt(H), Haar SU(2), Clifford+1e-3 perturbation). "
        "distinct = distinct word / wrapper configuration / matrix; non-trivial = word of length >= 2 or a compile")
ASSUMPTIONS = ["matrices of I,H,S,X,Y,Z as in any textbook; equality up to global phase with tolerance 1e-9",
               "oracle vlib.ref.dense"]

NAME = {"Identity": "i", "Hadamard": "h", "Phase": "s", "PhaseDagger": "sdg", "SigmaX": "x", "SigmaY": "y", "SigmaZ": "z"}
ALPHA = ["Identity", "Hadamard", "Phase", "SigmaX", "SigmaY", "SigmaZ"]


def mat_of(names):
    """matrix product of the list in listed order (last listed acts first)"""
    M = np.eye(2, dtype=complex)
    for nm in names:
        M = M @ dense.ONE_QUBIT[NAME[nm]]
    return M


def equal_up_to_phase(A, B, tol=1e-9):
    idx = np.unravel_index(np.argmax(np.abs(B)), B.shape)
    if abs(B[idx]) < 1e-12:
        return False
    ph = A[idx] / B[idx]
    return abs(abs(ph) - 1) < tol and np.allclose(A, ph * B, atol=tol, rtol=0)


def is_clifford(U):
    for P in (dense.X, dense.Z):
        Q = U @ P @ U.conj().T
        if not any(np.allclose(Q, s * R, atol=1e-9, rtol=0) for s in (1, -1) for R in (dense.X, dense.Y, dense.Z)):
            return False
    return True


PREPS = [[], ["x"], ["h"], ["h", "z"], ["h", "s"], ["h", "sdg"], "bell"]


def shards(tier, seed):
    L = 5 if tier == "quick" else 7
    out = [{"kind": "group", "seed": seed}]
    # words: split by first two letters -> 36 shards (only for len>=2), shorter ones in the group shard
    for a in range(6):
        for b in range(6):
            out.append({"kind": "words", "prefix": [a, b], "L": L, "seed": seed})
    for reg in ("e", "p"):
        for backend in ("dm", "stabilizer"):
            out.append({"kind": "wrappers", "reg": reg, "backend": backend, "seed": seed,
                        "extra": 60 if tier == "quick" else 600})
    out.append({"kind": "nonclifford", "seed": seed, "n": 500 if tier == "quick" else 5000})
    return out


def floors(tier):
    L = 5 if tier == "quick" else 7
    return {"words:checked": sum(6 ** k for k in range(0, L + 1)) - 1, "group:products": 576, "wrappers:compiles": 24 * 4 * 7,
            "nonclifford:rejected": 400, "group:entries": 24, "nonclifford:small_rotation": 100,
            "wrappers:with_single_noise_object": 24 * 4 * 7, "wrappers:with_list_noise_object": 24 * 4 * 2, "wrappers:with_unwrapped_in_dag_noise_object": 24 * 4 * 3,
            "wrappers:export_read_by_standard_reader": 24 * 2 * 7}


def _lib():
    import graphiq.circuit.ops as ops
    return ops


def _names(lst):
    return [c.__name__ for c in lst]


def scribble(ctx):
    """history on the library's own tables: everything the lookup functions hand out is checked against the reference and
    then overwritten in place by the caller; what the library answers afterwards must not depend on it"""
    ops = _lib()
    case = {"kind": "group"}
    for nm in ALPHA:
        cls = getattr(ops, nm)
        for arg in (cls, [cls], [cls, cls]):
            try:
                M = ops.local_clifford_to_matrix_map(arg)
            except Exception as e:
                ctx.violation("matrix_map_raises", case, {"argument": nm, "as_list": isinstance(arg, list), "exception": repr(e)[:200]}, key="matrix_map_exc")
                continue
            ref = mat_of([nm] * (len(arg) if isinstance(arg, list) else 1))
            ctx.count("scribble:handed_out")
            if not np.allclose(M, ref, atol=1e-9, rtol=0):
                ctx.violation("matrix_map_differs", case, {"entry": [nm], "as_list": isinstance(arg, list), "got": np.round(M, 6).tolist()}, key="matrix_map")
            if isinstance(M, np.ndarray) and M.flags.writeable:
                M[...] = 7  # the caller uses its result as scratch space
    for M in list(ops.local_cliffords_name_to_matrix_map()):
        if isinstance(M, np.ndarray) and M.flags.writeable:
            M[...] = 7
            ctx.count("scribble:handed_out")
    for g in ops.one_qubit_cliffords():
        if isinstance(g, list):
            g.clear()
            ctx.count("scribble:handed_out")
    try:
        a, b = ops.local_clifford_composition()
        for lst in (a, b):
            if isinstance(lst, list):
                for g in lst:
                    if isinstance(g, list):
                        g.clear()
                lst.clear()
                ctx.count("scribble:handed_out")
    except Exception:
        pass
    try:
        r = ops.simplify_local_clifford([ops.Hadamard, ops.Phase])
    except Exception as e:
        ctx.violation("simplify_raises", {"kind": "word", "word": ["Hadamard", "Phase"]}, {"exception": repr(e)[:200], "after": "results of the lookup functions were overwritten in place by their caller"},
                      key="simplify_exc")
        return
    if isinstance(r, list):
        r.clear()
        ctx.count("scribble:handed_out")


def run_shard(spec, ctx):
    scribble(ctx)
    {"group": run_group, "words": run_words, "wrappers": run_wrappers, "nonclifford": run_noncliff}[spec["kind"]](spec, ctx)


def replay(case, ctx):
    scribble(ctx)
    if case["kind"] == "word":
        check_word(case["word"], ctx, _enum_names(ctx))
    elif case["kind"] == "wrapper":
        check_wrapper(case["word"], case["reg"], case["backend"], case["prep"], ctx, case.get("noise_mode"))
    elif case["kind"] == "group":
        run_group({"seed": 0}, ctx)
    elif case["kind"] == "nonclifford":
        run_noncliff(case["spec"], ctx)


def _enum_names(ctx):
    ops = _lib()
    return [tuple(_names(g)) for g in ops.one_qubit_cliffords()]


def run_group(spec, ctx):
    ops = _lib()
    enum = [list(g) for g in ops.one_qubit_cliffords()]
    names = [tuple(_names(g)) for g in enum]
    ctx.count("group:entries", len(enum))
    case = {"kind": "group"}
    ctx.case(("enum", tuple(names)), True, {"enumeration": [list(n) for n in names]})
    if len(enum) != 24:
        ctx.violation("enumeration_size", case, {"size": len(enum)}, key="enum_size")
    mats = [mat_of(n) for n in names]
    for i, j in itertools.combinations(range(len(mats)), 2):
        if equal_up_to_phase(mats[i], mats[j]):
            ctx.violation("duplicate_entries", case, {"i": names[i], "j": names[j]}, key="enum_dup")
    for i, M in enumerate(mats):
        if not np.allclose(M @ M.conj().T, np.eye(2)) or not is_clifford(M):
            ctx.violation("entry_not_clifford", case, {"entry": names[i]}, key="enum_noncliff")
        # graphiq's own matrix for the entry must be the product of the list
        G = ops.local_clifford_to_matrix_map(enum[i])
        if not np.allclose(G, M, atol=1e-9, rtol=0):
            ctx.violation("matrix_map_differs", case, {"entry": names[i]}, key="matrix_map")
    # names_to_matrix enumeration agrees in order
    lib_mats = list(ops.local_cliffords_name_to_matrix_map())
    if len(lib_mats) != len(mats) or not all(np.allclose(a, b) for a, b in zip(lib_mats, mats)):
        ctx.violation("name_to_matrix_enumeration_order", case, {}, key="name_matrix_order")
    # closure
    for i, j in itertools.product(range(len(mats)), repeat=2):
        ctx.count("group:products")
        ctx.case(("prod", i, j), True)
        P = mats[i] @ mats[j]
        if not any(equal_up_to_phase(P, M) for M in mats):
            ctx.violation("not_closed", case, {"a": names[i], "b": names[j]}, key="closure")
        # simplify the concatenated list -> member equal to the product
        try:
            res = ops.simplify_local_clifford(enum[i] + enum[j])
        except Exception as e:
            ctx.violation("simplify_raises", {"kind": "word", "word": list(names[i] + names[j])},
                          {"exception": repr(e)[:200]}, key="simplify_exc")
            continue
        rn = tuple(_names(res))
        if rn not in names:
            ctx.violation("simplify_not_member", {"kind": "word", "word": list(names[i] + names[j])}, {"result": rn},
                          key="simplify_member")
        elif not equal_up_to_phase(mat_of(rn), P):
            ctx.violation("simplify_wrong", {"kind": "word", "word": list(names[i] + names[j])}, {"result": rn},
                          key="simplify_wrong")
    # short words (length 0 is not a valid wrapper; 1 here; >=2 in the word shards)
    for a in ALPHA:
        check_word([a], ctx, names)
    # check_equivalent_unitaries
    import graphiq.backends.density_matrix.functions as dmf
    rng = np.random.default_rng([spec["seed"], 20])
    for _ in range(300):
        U = dense.random_unitary(rng, 2)
        ph = np.exp(1j * rng.uniform(0, 2 * np.pi))
        ctx.count("equiv_unitaries:calls", 3)
        if not dmf.check_equivalent_unitaries(ph * U, U):
            ctx.violation("equivalent_unitaries_false_negative", case, {}, key="equiv_fn")
        V = dense.random_unitary(rng, 2)
        if dmf.check_equivalent_unitaries(U, V) and not equal_up_to_phase(U, V, 1e-6):
            ctx.violation("equivalent_unitaries_false_positive", case, {}, key="equiv_fp")
        if dmf.check_equivalent_unitaries(1.3 * U, U) or dmf.check_equivalent_unitaries(U + 0.2 * dense.X, U):
            ctx.violation("non_unitary_accepted_as_equivalent", case, {}, key="equiv_nonunitary")


def check_word(word, ctx, names):
    ops = _lib()
    ctx.count("words:checked")
    ctx.case(("word", tuple(word)), len(word) >= 2, {"word": word} if ctx.evaluations % 4000 == 0 else None)
    case = {"kind": "word", "word": list(word)}
    classes = [getattr(ops, w) for w in word]
    try:
        res = ops.simplify_local_clifford(classes)
    except Exception as e:
        ctx.violation("simplify_raises", case, {"exception": repr(e)[:200]}, key="simplify_exc")
        return
    rn = tuple(_names(res))
    target = mat_of(word)
    if rn not in names:
        ctx.violation("simplify_not_member", case, {"result": rn}, key="simplify_member")
    elif not equal_up_to_phase(mat_of(rn), target):
        ctx.violation("simplify_wrong", case, {"result": rn}, key="simplify_wrong")
    # lookup by matrix with an arbitrary global phase
    ph = np.exp(1j * 0.7 * (len(word) + 1))
    try:
        res2 = ops.find_local_clifford_by_matrix(ph * target)
        if not equal_up_to_phase(mat_of(_names(res2)), target):
            ctx.violation("lookup_wrong", case, {"result": _names(res2)}, key="lookup_wrong")
    except Exception as e:
        ctx.violation("lookup_raises", case, {"exception": repr(e)[:200]}, key="lookup_exc")


def run_words(spec, ctx):
    names = _enum_names(ctx)
    pre = [ALPHA[i] for i in spec["prefix"]]
    for L in range(2, spec["L"] + 1):
        for rest in itertools.product(ALPHA, repeat=L - 2):
            check_word(pre + list(rest), ctx, names)


def run_noncliff(spec, ctx):
    ops = _lib()
    rng = np.random.default_rng([spec["seed"], 21])
    T = np.diag([1, np.exp(1j * np.pi / 4)])
    sqH = dense.sqrtm_psd(np.eye(2)) @ (np.eye(2) * (1 + 1j) / 2 + dense.H * (1 - 1j) / 2)
    fixed = [T, T.conj().T, sqH, dense.H @ T, T @ dense.H @ T]
    for i in range(spec["n"]):
        if i < len(fixed):
            U = fixed[i]
        elif i % 3 == 0:
            U = dense.random_unitary(rng, 2)
        elif i % 3 == 1:
            # a Clifford perturbed by a small rotation (angle log-uniform in [1e-4, 0.3]) about a random axis; graphiq's own
            # equality tolerance (allclose, 1e-5 relative) is far below the smallest of these
            a = float(np.exp(rng.uniform(np.log(1e-4), np.log(0.3))))
            ax = rng.normal(size=3)
            ax = ax / np.linalg.norm(ax)
            G = ax[0] * dense.X + ax[1] * dense.Y + ax[2] * dense.Z
            R = np.cos(a / 2) * np.eye(2) - 1j * np.sin(a / 2) * G
            U = mat_of([ALPHA[int(rng.integers(6))], ALPHA[int(rng.integers(6))]]) @ R
            ctx.count("nonclifford:small_rotation")
        else:
            U = mat_of([ALPHA[int(rng.integers(6))]]) * (1 + rng.uniform(0.01, 0.5))  # not unitary
        if is_clifford(U) and np.allclose(U @ U.conj().T, np.eye(2)):
            continue
        ctx.case(("noncliff", np.round(U, 6).tobytes()), True)
        try:
            res = ops.find_local_clifford_by_matrix(U)
            ctx.violation("non_clifford_accepted", {"kind": "nonclifford", "spec": spec},
                          {"matrix": U, "result": _names(res)}, key="noncliff_accepted")
        except ValueError:
            ctx.count("nonclifford:rejected")
        except Exception as e:
            ctx.violation("non_clifford_other_exception", {"kind": "nonclifford", "spec": spec}, {"exception": repr(e)[:200]},
                          key="noncliff_exc")


def check_wrapper(word, reg, backend, prep_i, ctx, noise_mode=None):
    """one-wrapper circuit on register type `reg` (2 photons + 2 emitters so that index maps matter), compiled with
    `backend`, against (matrix product of the list) applied to the prepared input"""
    from .. import gq
    m = gq.mods()
    ops = m["ops"]
    n_p, n_e = 2, 2
    n = n_p + n_e
    c = m["CircuitDAG"](n_emitter=n_e, n_photon=n_p, n_classical=0)
    tq = 1  # target register index within its type
    q = tq if reg == "p" else n_p + tq
    partner_reg, partner_type = (0, "e") if reg == "p" else (0, "p")
    pq = n_p + 0 if reg == "p" else 0
    prep = PREPS[prep_i]
    rho = dense.zero_rho(n)
    gate_cls = {"x": ops.SigmaX, "h": ops.Hadamard, "z": ops.SigmaZ, "s": ops.Phase, "sdg": ops.PhaseDagger}
    if prep == "bell":
        c.add(ops.Hadamard(register=tq, reg_type=reg))
        c.add(ops.CNOT(control=tq, control_type=reg, target=partner_reg, target_type=partner_type))
        rho = dense.gate(rho, "h", [q], n)
        rho = dense.gate(rho, "cnot", [q, pq], n)
    else:
        for g in prep:
            c.add(gate_cls[g](register=tq, reg_type=reg))
            rho = dense.gate(rho, g, [q], n)
    classes = [getattr(ops, w) for w in word]
    import graphiq.noise.noise_models as nm
    noise_sim = False
    if noise_mode == "single":
        # one noise model for the whole wrapper (unwrap() then adds a noisy Identity); its strength is zero / it is ignored
        noise = [nm.DepolarizingNoise(0.0), nm.PauliError("I"), nm.PhotonLoss(0.0), nm.DepolarizingNoise(0.3)][prep_i % 4]
        noise.noise_parameters["After gate"] = bool(prep_i % 2)
        noise_sim = prep_i % 4 != 3          # a non-zero strength is only allowed with noise simulation switched off
        c.add(ops.OneQubitGateWrapper(classes, register=tq, reg_type=reg, noise=noise))
    elif noise_mode == "unwrapped_in_dag":
        c.add(ops.OneQubitGateWrapper(classes, register=tq, reg_type=reg))
    elif noise_mode == "list":
        c.add(ops.OneQubitGateWrapper(classes, register=tq, reg_type=reg, noise=[nm.NoNoise() if k % 2 else nm.PauliError("I") for k in range(len(classes))]))
        noise_sim = bool(prep_i % 2)
    else:
        c.add(ops.OneQubitGateWrapper(classes, register=tq, reg_type=reg))
    if noise_mode == "unwrapped_in_dag":
        # the other way a wrapper is expanded: inside the circuit (CircuitDAG.unwrap_nodes), before compiling
        c.unwrap_nodes()
    U = mat_of(word)
    ref = dense.conj_apply(rho, U, [q], n)
    comp = m["DensityMatrixCompiler"]() if backend == "dm" else m["StabilizerCompiler"]()
    comp.measurement_determinism = 1
    comp.noise_simulation = noise_sim
    ctx.count("wrappers:compiles")
    if noise_mode:
        ctx.count("wrappers:with_" + noise_mode + "_noise_object")
    ctx.case(("wrap", tuple(word), reg, backend, prep_i, noise_mode), True,
             {"wrapper": word, "reg": reg, "backend": backend, "prep": prep} if ctx.evaluations % 150 == 0 else None)
    case = {"kind": "wrapper", "word": list(word), "reg": reg, "backend": backend, "prep": prep_i, "noise_mode": noise_mode}
    try:
        st = comp.compile(c)
    except Exception as e:
        ctx.violation("wrapper_compile_raises", case, {"exception": repr(e)[:300]}, key="wrapper_exc")
        return
    rep = st.rep_data
    if type(rep).__name__ == "DensityMatrix":
        got = np.array(rep.data)
    elif type(rep).__name__ == "MixedStabilizer":
        got = sum(p_ * dense.projector_of_group(gq.clifford_stab_ptab(t_)) for p_, t_ in rep.mixture)
    else:
        got = dense.projector_of_group(gq.clifford_stab_ptab(rep.data))
    if not np.allclose(got, ref, atol=1e-8, rtol=0):
        ctx.violation("wrapper_order_or_action", case,
                      {"max_abs_diff": float(np.max(np.abs(got - ref))), "word": word, "meaning": "matrix product, last listed first"},
                      key=f"wrapper_state:{backend}")
    # ---- the exported wrapper (openqasm_lib.single_qubit_wrapper_info) read by a standard openQASM reader denotes the same unitary
    if noise_mode is None and backend == "dm":
        from ..ref.qasm import QasmProgram
        try:
            text = c.to_openqasm()
            rho_q, _ = QasmProgram(text).run([])
            ctx.count("wrappers:export_read_by_standard_reader")
            if not np.allclose(rho_q, ref, atol=1e-8, rtol=0):
                ctx.violation("exported_wrapper_denotes_another_unitary", case, {"max_abs_diff": float(np.max(np.abs(rho_q - ref))), "word": word,
                                                                                 "text_tail": text.splitlines()[-14:]}, key="wrapper_export")
        except Exception as e:
            ctx.violation("exported_wrapper_not_readable", case, {"exception": repr(e)[:300]}, key="wrapper_export_exc")


def run_wrappers(spec, ctx):
    names = _enum_names(ctx)
    for w in names:
        for p in range(len(PREPS)):
            check_wrapper(list(w), spec["reg"], spec["backend"], p, ctx)
            check_wrapper(list(w), spec["reg"], spec["backend"], p, ctx, noise_mode="single")
            if p < 2:
                check_wrapper(list(w), spec["reg"], spec["backend"], p, ctx, noise_mode="list")
            if p in (1, 3, 5):
                check_wrapper(list(w), spec["reg"], spec["backend"], p, ctx, noise_mode="unwrapped_in_dag")
    rng = np.random.default_rng([spec["seed"], 22, sum(map(ord, spec["reg"] + spec["backend"]))])
    alpha = ALPHA + ["PhaseDagger"]
    for _ in range(spec["extra"]):
        L = int(rng.integers(1, 7))
        w = [alpha[int(rng.integers(len(alpha)))] for _ in range(L)]
        check_wrapper(w, spec["reg"], spec["backend"], int(rng.integers(len(PREPS))), ctx, noise_mode=[None, "unwrapped_in_dag"][int(rng.integers(2))])
