"""C08 - conversions among graph, stabilizer and density-matrix forms preserve the state.
Boundary monitors on graph_to_density / graph_to_stabilizer / get_*_tableau_from_graph / density_to_graph /
stabilizer_to_graph / state_to_graph / QuantumState.convert_representation (all ordered pairs); probes on _graph_finder
and _position_finder (which Hadamard positions were chosen)."""
import numpy as np

from ..ref import graphs, pauli, dense
from ..gen import stab
from .. import gq, probes

ID = "C08"
LEVEL = "exploration"
RULE = ("graphs: all labelled graphs on <=4 (thorough <=5) vertices, random graphs up to 8 vertices for density-matrix paths and "
        "up to 40 for stabilizer paths, node labels inserted in permuted order; |G> presented in random generating sets; "
        "stabilizer states: all states on <=2 (thorough <=3) qubits in random generating sets and random states up to 12 qubits "
        "for state_to_graph; every ordered pair of representations x graphs for convert_representation. distinct = distinct "
        "(function, input) digest; non-trivial = graph has an edge / state is not |0..0>")
ASSUMPTIONS = ["oracle graph state 2^{-n/2} sum_x (-1)^{x^T A x/2}|x> and Pauli algebra (self-test cross-checked)",
               "density_to_graph uses a negativity threshold: matrices compared with tolerance 1e-8"]
GATE = {"H": "h", "P": "s", "P_dag": "sdg", "X": "x", "Y": "y", "Z": "z", "I": "i"}
EXHAUSTIVE_SUBSPACES = {"quick": ["all labelled graphs on <=4 vertices x 6 ordered representation pairs"],
                        "thorough": ["all labelled graphs on <=5 vertices x 6 ordered representation pairs", "all stabilizer states on <=3 qubits"]}


def shards(tier, seed):
    out = []
    nmax = 4 if tier == "quick" else 5
    for i in range(4 if tier == "quick" else 16):
        out.append({"kind": "graphs_all", "nmax": nmax, "part": i, "nparts": 4 if tier == "quick" else 16, "seed": seed, "shard": i})
    for i in range(4 if tier == "quick" else 16):
        out.append({"kind": "graphs_random", "count": 80 if tier == "quick" else 1000, "seed": seed, "shard": i})
    out.append({"kind": "states_all", "nmax": 2 if tier == "quick" else 3, "seed": seed, "shard": 0})
    for i in range(2 if tier == "quick" else 8):
        out.append({"kind": "history", "count": 120 if tier == "quick" else 1500, "seed": seed, "shard": i})
    for i in range(4 if tier == "quick" else 16):
        out.append({"kind": "states_random", "count": 150 if tier == "quick" else 2500, "seed": seed, "shard": i})
    return out


def floors(tier):
    return {"graph_to_density:calls": 300, "graph_to_stabilizer:calls": 300, "density_to_graph:calls": 200,
            "stabilizer_to_graph:calls": 300, "stabilizer_to_graph:noncanonical_presentations": 200, "state_to_graph:calls": 500,
            "state_to_graph:with_hadamards": 100, "state_to_graph:negative_signs": 200, "convert:pairs": 1000,
            "set:convert_pairs": 6, "graphs:n>=20": 20, "history:sequences": 200, "history:refused_conversion_then_reuse": 60, "history:second_calls_on_same_object": 1500, "state_to_graph:zero_sign_bits_nonstandard_presentation": 30}


class FinderProbe:
    def __init__(self, ctx):
        import graphiq.backends.state_rep_conversion as rc
        self.ctx = ctx
        self.h_positions = None
        probes.hook(rc._position_finder, None, self.ret)

    def ret(self, frame, ret):
        try:
            self.h_positions = [int(v) for v in ret]
            self.ctx.seen("hadamard_position_count", len(self.h_positions))
        except Exception:
            pass


def group_of(A):
    X, Z, K = graphs.graph_stabilizers(A)
    return pauli.PTab(X, Z, K)


def run_shard(spec, ctx):
    probe = FinderProbe(ctx)
    k = spec["kind"]
    rng = np.random.default_rng([spec["seed"], sum(map(ord, k)), spec["shard"]])
    if k == "graphs_all":
        j = 0
        for n in range(1, spec["nmax"] + 1):
            for code in range(1 << (n * (n - 1) // 2)):
                if j % spec["nparts"] == spec["part"]:
                    check_graph(graphs.code_to_adj(code, n), None, ctx, rng, probe, all_pairs=True)
                j += 1
    elif k == "graphs_random":
        for i in range(spec["count"]):
            big = i % 3 == 0
            n = int(rng.integers(9, 41)) if big else int(rng.integers(2, 9))
            A = graphs.random_graph(rng, n, [0.1, 0.3, 0.5, 0.8][i % 4])
            order = [int(v) for v in rng.permutation(n)] if i % 2 else None
            check_graph(A, order, ctx, rng, probe, all_pairs=(n <= 6))
    elif k == "history":
        for i in range(spec["count"]):
            n = int(rng.integers(2, 8))
            check_history(graphs.random_graph(rng, n, [0.2, 0.5, 0.8][i % 3]), ctx, int(rng.integers(2 ** 31)))
    elif k == "states_all":
        for n in range(1, spec["nmax"] + 1):
            for s in stab.all_states(n):
                check_state(stab.random_presentation(rng, s), ctx, rng, probe)
    else:
        for i in range(spec["count"]):
            n = int(rng.integers(1, 13))
            if i % 3 == 2:
                # graph states with Pauli-Z by-products, presented by non-standard generating sets - preferably one whose
                # stored sign bits are all zero although the state is not +|G> (the sign hides in products of generators)
                n = int(rng.integers(2, 9))
                t = group_of(graphs.random_graph(rng, n, [0.3, 0.6, 0.9][i % 3]) if i % 2 else graphs.random_connected_graph(rng, n, 0.5))
                for q in range(n):
                    if rng.random() < 0.4:
                        t.z(q)
                best = None
                for _ in range(60):
                    c = pauli.scramble_generators(rng, t)
                    r = c.to_graphiq()[2]
                    if best is None or r.sum() < best[0]:
                        best = (int(r.sum()), c)
                    if best[0] == 0:
                        break
                if best[0] == 0 and not pauli.same_group_fast(best[1], group_of(np.zeros((n, n), dtype=int))):
                    ctx.count("state_to_graph:zero_sign_bits_nonstandard_presentation")
                check_state(best[1], ctx, rng, probe)
                continue
            t = stab.y_heavy_state(rng, n) if i % 2 else pauli.random_stabilizer_group(rng, n, length=int(rng.integers(0, 5 * n + 1)))
            check_state(t, ctx, rng, probe)


def replay(case, ctx):
    probe = FinderProbe(ctx)
    rng = np.random.default_rng(case.get("rseed", 0))
    if case["kind"] == "history":
        check_history(np.array(case["adj"]), ctx, case["rseed"])
    elif case["kind"] == "graph":
        check_graph(np.array(case["adj"]), case.get("order"), ctx, rng, probe, all_pairs=True)
    else:
        check_state(pauli.PTab.from_labels(case["labels"]), ctx, rng, probe)


def _exc(e):
    return f"{type(e).__name__}: {e}"[:300]


def check_graph(A, order, ctx, rng, probe, all_pairs):
    import graphiq.backends.state_rep_conversion as rc
    from graphiq.backends.stabilizer.functions.rep_conversion import get_stabilizer_tableau_from_graph, get_clifford_tableau_from_graph
    from graphiq.state import QuantumState
    n = A.shape[0]
    rseed = int(rng.integers(2 ** 31))
    rng = np.random.default_rng(rseed)
    case = {"kind": "graph", "adj": A.tolist(), "order": order, "rseed": rseed}
    ctx.case(("g", A.tobytes(), tuple(order) if order else None), bool(A.any()), {"adjacency": A.tolist(), "node_order": order} if ctx.evaluations % 300 == 0 else None)
    if n >= 20:
        ctx.count("graphs:n>=20")
    g = gq.nx_from_adj(A, order)
    ref_group = group_of(A)
    dm_ok = n <= 8
    ref_rho = dense.ket2dm(dense.graph_state_vec(A)) if dm_ok else None
    # ---- graph -> stabilizer
    for name, f in (("graph_to_stabilizer(nx)", lambda: rc.graph_to_stabilizer(g.copy())[0][1]),
                    ("graph_to_stabilizer(adj)", lambda: rc.graph_to_stabilizer(A.astype(float))[0][1]),
                    ("get_stabilizer_tableau_from_graph", lambda: get_stabilizer_tableau_from_graph(g.copy())),
                    ("get_clifford_tableau_from_graph", lambda: get_clifford_tableau_from_graph(g.copy()).to_stabilizer())):
        try:
            t = f()
            ctx.count("graph_to_stabilizer:calls")
            if not pauli.same_group_fast(gq.stabilizer_tableau_to_ptab(t), ref_group):
                ctx.violation("graph_to_stabilizer_wrong", case, {"via": name, "got": t.to_labels()[:10]}, key="g2s_wrong")
        except Exception as e:
            ctx.violation("graph_to_stabilizer_raises", case, {"via": name, "exception": _exc(e)}, key="g2s_exc")
    # ---- stabilizer -> graph, any generating set
    pres = pauli.scramble_generators(rng, ref_group) if n >= 2 else ref_group
    for label, t in (("canonical", ref_group), ("scrambled", pres)):
        if label == "scrambled":
            ctx.count("stabilizer_to_graph:noncanonical_presentations")
        for validate in (True, False):
            try:
                res = rc.stabilizer_to_graph(gq.ptab_to_stabilizer_tableau(t), validate=validate)
                ctx.count("stabilizer_to_graph:calls")
                B = gq.adj_from_nx(res[0][1], nodelist=range(n))
                if not np.array_equal(B, A):
                    ctx.violation("stabilizer_to_graph_wrong", case, {"presentation": label, "validate": validate, "got": B.tolist(),
                                                                       "generators": t.labels()[:10], "h_positions": probe.h_positions},
                                  key="s2g_wrong")
            except Exception as e:
                ctx.violation("stabilizer_to_graph_raises", case, {"presentation": label, "validate": validate, "exception": _exc(e),
                                                                    "generators": t.labels()[:10], "h_positions": probe.h_positions},
                              key=f"s2g_exc:{label}:{'validate' if validate else 'novalidate'}:{type(e).__name__}")
    # ---- graph <-> density
    if dm_ok:
        for name, f in (("graph_to_density(nx)", lambda: rc.graph_to_density(g.copy())), ("graph_to_density(adj)", lambda: rc.graph_to_density(A.astype(float)))):
            try:
                rho = f()
                ctx.count("graph_to_density:calls")
                if not np.allclose(rho, ref_rho, atol=1e-8, rtol=0):
                    ctx.violation("graph_to_density_wrong", case, {"via": name, "max_abs_diff": float(np.max(np.abs(rho - ref_rho)))}, key="g2d_wrong")
            except Exception as e:
                ctx.violation("graph_to_density_raises", case, {"via": name, "exception": _exc(e)}, key="g2d_exc")
        if n <= 6:
            try:
                B = np.array(rc.density_to_graph(ref_rho.copy())).astype(int)
                ctx.count("density_to_graph:calls")
                if not np.array_equal(B, A):
                    ctx.violation("density_to_graph_wrong", case, {"got": B.tolist()}, key="d2g_wrong")
            except Exception as e:
                ctx.violation("density_to_graph_raises", case, {"exception": _exc(e)}, key="d2g_exc")
    # ---- QuantumState.convert_representation for every ordered pair
    if all_pairs and n <= 6:
        for a in ("g", "s", "dm"):
            for b in ("g", "s", "dm"):
                if a == b:
                    continue
                ctx.count("convert:pairs")
                ctx.seen("convert_pairs", f"{a}->{b}")
                try:
                    if a == "g":
                        q = QuantumState(g.copy(), rep_type="g")
                    elif a == "s":
                        pres_s = pauli.scramble_generators(rng, ref_group) if n >= 2 else ref_group
                        q = QuantumState(gq.ptab_to_clifford(pres_s, rng), rep_type="s")
                    else:
                        q = QuantumState(ref_rho.copy(), rep_type="dm")
                    q.convert_representation(b)
                    if q.rep_type != b:
                        raise AssertionError(f"rep_type is {q.rep_type} after conversion to {b}")
                    if b == "g":
                        B = gq.adj_from_nx(q.rep_data.data, nodelist=(list(q.rep_data.data.nodes) if a == "g" else range(n)))
                        same = np.array_equal(B, A) if a != "g" else np.array_equal(B, A)
                    elif b == "s":
                        same = pauli.same_group_fast(gq.clifford_stab_ptab(q.rep_data.data), ref_group) and \
                            not pauli.check_clifford_tableau(*gq.clifford_snapshot(q.rep_data.data))
                    else:
                        same = np.allclose(q.rep_data.data, ref_rho, atol=1e-8, rtol=0)
                    if not same:
                        key = f"convert_wrong:{a}->{b}"
                        if a == "s" and b == "dm":
                            # mechanism of the open finding: the projector is built from the generator labels without their signs
                            x_, z_, r_, _ = pres_s.to_graphiq()
                            if r_.any() and np.allclose(q.rep_data.data, dense.projector_of_group(pauli.PTab.from_graphiq(x_, z_, 0 * r_)), atol=1e-8, rtol=0):
                                key = "stab-to-density-ignores-signs"
                        ctx.violation("convert_representation_changes_state", case, {"from": a, "to": b}, key=key)
                except Exception as e:
                    ctx.violation("convert_representation_raises", case, {"from": a, "to": b, "exception": _exc(e)}, key=f"convert_exc:{a}->{b}")


def check_state(t, ctx, rng, probe):
    import graphiq.backends.state_rep_conversion as rc
    n = t.n
    case = {"kind": "state", "labels": t.labels()}
    x, z, r, _ = t.to_graphiq()
    trivial = (not x.any()) and not r.any()
    ctx.case(("s", x.tobytes(), z.tobytes(), r.tobytes()), not trivial, {"generators": t.labels()} if ctx.evaluations % 400 == 0 else None)
    if r.any():
        ctx.count("state_to_graph:negative_signs")
    for kind in ("stabilizer", "clifford"):
        state = gq.ptab_to_stabilizer_tableau(t) if kind == "stabilizer" else gq.ptab_to_clifford(t, rng)
        probe.h_positions = None
        try:
            graph, tab, gates = rc.state_to_graph(state)
            ctx.count("state_to_graph:calls")
        except Exception as e:
            ctx.violation("state_to_graph_raises", case, {"input": kind, "exception": _exc(e), "h_positions": probe.h_positions},
                          key=f"s2graph_exc:{type(e).__name__}:{str(e)[:40]}")
            continue
        if any(g[0] == "H" for g in gates):
            ctx.count("state_to_graph:with_hadamards")
        B = gq.adj_from_nx(graph, nodelist=range(n))
        det = {"input": kind, "graph": B.tolist(), "gates": [list(map(str, g)) for g in gates], "generators": t.labels()[:12]}
        if not graphs.is_simple(B):
            ctx.violation("state_to_graph_not_a_simple_graph", case, det, key="s2graph_graph")
            continue
        if not all(g[0] in GATE and 0 <= int(g[1]) < n for g in gates):
            ctx.violation("state_to_graph_bad_gate", case, det, key="s2graph_gate")
            continue
        u = t.copy()
        for g in gates:
            u.apply(GATE[g[0]], int(g[1]))
        if not pauli.same_group_fast(u, group_of(B)):
            kind_v = "signs" if u.same_group_up_to_signs(group_of(B)) else "state"
            ctx.violation("state_to_graph_gates_do_not_reach_graph_state", case, {**det, "mismatch": kind_v}, key="s2graph_wrong:" + kind_v)
        elif not pauli.same_group_fast(gq.stabilizer_tableau_to_ptab(tab), t):
            ctx.violation("state_to_graph_returned_tableau_is_not_the_input_state", case, det, key="s2graph_tab")
        elif n <= 5 and ctx.counters.get("state_to_graph:calls", 0) % 7 == 0:
            rho = dense.projector_of_group(t)
            for g in gates:
                rho = dense.gate(rho, GATE[g[0]], [int(g[1])], n)
            if not np.allclose(rho, dense.ket2dm(dense.graph_state_vec(B)), atol=1e-8, rtol=0):
                ctx.violation("state_to_graph_gates_do_not_reach_graph_state_dense", case, det, key="s2graph_wrong:dense")


# ------------------------------------------------------------------------------------------ histories on the same objects
def check_history(A, ctx, rseed):
    """the same input object converted repeatedly, with the result of the previous call and then the input itself changed
    in place in between: every call must describe the input as it is at the time of the call (no stale cache entry, no
    result object shared between calls)"""
    import graphiq.backends.state_rep_conversion as rc
    import graphiq.backends.stabilizer.functions.transformation as tr
    from graphiq.backends.stabilizer.functions.rep_conversion import get_stabilizer_tableau_from_graph, get_clifford_tableau_from_graph
    from graphiq.state import QuantumState
    rng = np.random.default_rng(rseed)
    n = A.shape[0]
    case = {"kind": "history", "adj": A.tolist(), "rseed": rseed}
    ctx.case(("h", A.tobytes(), rseed), True, {"adjacency": A.tolist(), "workload": "history"} if ctx.evaluations % 200 == 0 else None)
    ctx.count("history:sequences")

    def toggles(A0, k):
        B = A0.copy()
        out = []
        for _ in range(k):
            i, j = [int(v) for v in rng.choice(n, size=2, replace=False)]
            B = B.copy()
            B[i, j] ^= 1
            B[j, i] ^= 1
            out.append((i, j, B))
        return out

    def tab_group(t):
        return gq.clifford_stab_ptab(t) if type(t).__name__ == "CliffordTableau" else gq.stabilizer_tableau_to_ptab(t)

    def spoil(res):
        # change the previous result in place, the way a simulation that uses it as its state would
        if isinstance(res, np.ndarray):
            res *= 0.5
        else:
            q = int(rng.integers(n))
            tr.hadamard_gate(res, q)
            tr.phase_gate(res, q)
            tr.cnot_gate(res, q, (q + 1) % n)

    graph_fns = [("graph_to_stabilizer", lambda g: rc.graph_to_stabilizer(g)[0][1], "tab"),
                 ("get_stabilizer_tableau_from_graph", get_stabilizer_tableau_from_graph, "tab"),
                 ("get_clifford_tableau_from_graph", get_clifford_tableau_from_graph, "tab")]
    if n <= 6:
        graph_fns.append(("graph_to_density", rc.graph_to_density, "dm"))
    for name, f, out_kind in graph_fns:
        for as_array in (False, True):
            if as_array and name.startswith("get_"):
                continue
            cur = A.copy()
            obj = cur.astype(float) if as_array else gq.nx_from_adj(cur, None)
            steps = [("first", None)] + [("after_result_changed", None)] + [("after_input_changed", t) for t in toggles(cur, 2)]
            prev = None
            for what, tg in steps:
                if what == "after_result_changed" and prev is not None:
                    try:
                        spoil(prev)
                    except Exception:
                        pass
                if tg is not None:
                    i, j, cur = tg
                    if as_array:
                        obj[i, j] = obj[j, i] = float(cur[i, j])
                    elif cur[i, j]:
                        obj.add_edge(i, j)
                    else:
                        obj.remove_edge(i, j)
                try:
                    res = f(obj)
                except Exception as e:
                    ctx.violation("conversion_raises_on_repeated_call", case, {"function": name, "step": what, "exception": _exc(e)}, key=f"hist_exc:{name}")
                    break
                if what != "first":
                    ctx.count("history:second_calls_on_same_object")
                if out_kind == "dm":
                    ok = np.allclose(res, dense.ket2dm(dense.graph_state_vec(cur)), atol=1e-8, rtol=0)
                else:
                    ok = pauli.same_group_fast(tab_group(res), group_of(cur))
                if not ok:
                    ctx.violation("conversion_depends_on_earlier_calls", case, {"function": name, "input": "adjacency array" if as_array else "networkx graph",
                                                                                 "step": what, "graph_now": cur.tolist()}, key=f"hist_wrong:{name}:{what}")
                    break
                prev = res
    # ---- state-valued inputs: the same tableau object converted, overwritten in place with another graph state, converted again
    B = toggles(A, 1)[0][2]
    for name in ("stabilizer_to_graph", "state_to_graph"):
        t = gq.ptab_to_stabilizer_tableau(pauli.scramble_generators(rng, group_of(A)))
        t2 = gq.ptab_to_stabilizer_tableau(pauli.scramble_generators(rng, group_of(B)))
        for what, want in (("first", A), ("repeat", A), ("after_input_changed", B)):
            if what == "after_input_changed":
                t.table = np.array(t2.table).copy()
                t.phase = np.array(t2.phase).copy()
            try:
                if name == "stabilizer_to_graph":
                    G = rc.stabilizer_to_graph(t)[0][1]
                    got = gq.adj_from_nx(G, nodelist=range(n))
                    ok = np.array_equal(got, want)
                else:
                    G, tab, gates = rc.state_to_graph(t)
                    got = gq.adj_from_nx(G, nodelist=range(n))
                    u = group_of(want)
                    for g_ in gates:
                        u.apply(GATE[g_[0]], int(g_[1]))
                    ok = pauli.same_group_fast(u, group_of(got))
                if what != "first":
                    ctx.count("history:second_calls_on_same_object")
            except Exception as e:
                ctx.violation("conversion_raises_on_repeated_call", case, {"function": name, "step": what, "exception": _exc(e)}, key=f"hist_exc:{name}")
                break
            if not ok:
                ctx.violation("conversion_depends_on_earlier_calls", case, {"function": name, "step": what, "expected_graph": want.tolist(), "got": got.tolist()},
                              key=f"hist_wrong:{name}:{what}")
                break
    # ---- a conversion that is refused (the stabilizer state held is not a graph state), caught by the caller, then the same
    # object used further: the representation it says it holds must be the one it holds, and later conversions must be right
    if 2 <= n <= 5 and A.any():
        kinds = {"g": ("Graph",), "s": ("Stabilizer", "MixedStabilizer"), "dm": ("DensityMatrix",)}
        try:
            q = QuantumState(gq.nx_from_adj(A, None), rep_type="g")
            q.convert_representation("s")
            v = int(np.argmax(A.sum(axis=0)))          # a vertex with a neighbour: H on it leaves the graph-state form
            q.rep_data.apply_hadamard(v)
            refused = False
            try:
                q.convert_representation("g")
            except Exception:
                refused = True
            ctx.count("history:refused_conversion_then_reuse" if refused else "history:non_graph_state_converted_to_graph")
            if refused:
                if type(q.rep_data).__name__ not in kinds.get(q.rep_type, ()):
                    ctx.violation("state_object_inconsistent_after_refused_conversion", case, {"rep_type": q.rep_type, "held": type(q.rep_data).__name__},
                                  key="hist_refused:rep_type")
                else:
                    q.rep_data.apply_hadamard(v)
                    for b in ("g", "dm", "s"):
                        q.convert_representation(b)
                        if type(q.rep_data).__name__ not in kinds[b] or q.rep_type != b:
                            ok = False
                        elif b == "g":
                            ok = np.array_equal(gq.adj_from_nx(q.rep_data.data, nodelist=range(n)), A)
                        elif b == "s":
                            ok = pauli.same_group_fast(gq.clifford_stab_ptab(q.rep_data.data), group_of(A))
                        else:
                            ok = np.allclose(q.rep_data.data, dense.ket2dm(dense.graph_state_vec(A)), atol=1e-8, rtol=0)
                        if not ok:
                            ctx.violation("convert_representation_wrong_after_refused_conversion", case, {"to": b, "rep_type": q.rep_type, "held": type(q.rep_data).__name__},
                                          key=f"hist_refused:{b}")
                            break
        except Exception as e:
            ctx.violation("convert_representation_raises", case, {"step": "after a refused conversion", "exception": _exc(e)}, key="hist_refused_exc")
    # ---- a QuantumState converted back and forth repeatedly
    if n <= 5:
        q = QuantumState(gq.nx_from_adj(A, None), rep_type="g")
        path = [["s", "g", "dm", "s", "dm", "g"], ["dm", "g", "s", "g", "dm", "s"]][int(rng.integers(2))]
        for b in path:
            try:
                q.convert_representation(b)
                if b == "g":
                    ok = np.array_equal(gq.adj_from_nx(q.rep_data.data, nodelist=range(n)), A)
                elif b == "s":
                    ok = pauli.same_group_fast(gq.clifford_stab_ptab(q.rep_data.data), group_of(A))
                else:
                    ok = np.allclose(q.rep_data.data, dense.ket2dm(dense.graph_state_vec(A)), atol=1e-8, rtol=0)
                ctx.count("history:second_calls_on_same_object")
            except Exception as e:
                ctx.violation("convert_representation_raises", case, {"path": path, "to": b, "exception": _exc(e)}, key=f"hist_convert_exc:{b}")
                break
            if not ok:
                ctx.violation("convert_representation_changes_state", case, {"path": path, "to": b}, key=f"hist_convert_wrong:{b}")
                break
