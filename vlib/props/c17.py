"""C17 - density-matrix fidelity, trace distance and partial trace.
Boundary monitors on dmf.fidelity / trace_distance / partial_trace / sqrtm_psd, Infidelity.evaluate,
TraceDistance.evaluate, DensityMatrix.partial_trace, QuantumState.partial_trace; oracle = vlib.ref.dense."""
import itertools
import numpy as np

from ..ref import dense, pauli
from .. import gq

ID = "C17"
LEVEL = "exploration"
RULE = ("cases are generated from (seed, shard, index): pairs/triples of density matrices on 1..4 (thorough 5) qubits in the "
        "families pure/pure, pure/mixed, mixed/mixed (full rank, rank deficient, real, complex, commuting, equal, "
        "nearly equal 1e-9, orthogonal), stabilizer states in both representations, and (state, kept subset) pairs for "
        "every subset of qubits of entangled states. distinct = distinct (family, matrices) digest; non-trivial = the "
        "case is not a pair of identical product states and reaches a monitored function with valid input")
ASSUMPTIONS = ["numpy eigh/svd/qr are correct", "oracle vlib.ref.dense (cross-checked by vlib.ref.selftest)",
               "tolerance 1e-7 on fidelity / trace distance, 1e-8 on matrix entries"]
TOL = 1e-7
FAMILIES = ["pure_pure", "pure_mixed", "mixed_mixed", "mixed_rankdef", "commuting", "equal", "near_equal",
            "orthogonal", "real_mixed", "stab_pair", "ptrace", "triangle", "metric_rep", "ptrace_state", "near_pure"]


def shards(tier, seed):
    n = 16
    per = {"quick": 90, "thorough": 2500}[tier]
    return [{"seed": seed, "shard": i, "per_family": per, "nmax": 4 if tier == "quick" else 5} for i in range(n)]


def floors(tier):
    f = {"evaluations": 5000 if tier == "quick" else 100000}
    for fam in FAMILIES:
        f["family:" + fam] = 100
    f.update({"arguments:checked_unchanged": 5000, "fid:mixed_mixed_branch": 300, "ptrace:entangled_cases": 300, "fid:value_lt_0.99": 500,
              "metric_rep:pairs": 100, "metric_rep:evaluations_on_reused_objects": 400})
    return f


def classify(w):
    return w.get("key")


# --------------------------------------------------------------------------------------------- generation
def gen(family, seedt, nmax):
    rng = np.random.default_rng(seedt)
    n = int(rng.integers(1, nmax + 1))
    d = 2 ** n
    c = {"family": family, "n": n}
    if family == "pure_pure":
        c["rho"], c["sigma"] = dense.random_pure(rng, n), dense.random_pure(rng, n)
    elif family == "pure_mixed":
        a, b = dense.random_pure(rng, n), dense.random_mixed(rng, n)
        c["rho"], c["sigma"] = (a, b) if rng.random() < 0.5 else (b, a)
    elif family == "mixed_mixed":
        c["rho"], c["sigma"] = dense.random_mixed(rng, n), dense.random_mixed(rng, n)
    elif family == "real_mixed":
        c["rho"], c["sigma"] = dense.random_mixed(rng, n, real=True), dense.random_mixed(rng, n, real=True)
    elif family == "mixed_rankdef":
        r1 = int(rng.integers(2, max(3, d)))
        r2 = int(rng.integers(2, max(3, d)))
        c["rho"], c["sigma"] = dense.random_mixed(rng, n, rank=min(r1, d)), dense.random_mixed(rng, n, rank=min(r2, d))
    elif family == "commuting":
        U = dense.random_unitary(rng, d)
        p = rng.dirichlet(np.ones(d))
        q = rng.dirichlet(np.ones(d))
        c["rho"], c["sigma"] = U @ np.diag(p) @ U.conj().T, U @ np.diag(q) @ U.conj().T
    elif family == "equal":
        a = dense.random_mixed(rng, n) if rng.random() < 0.6 else dense.random_pure(rng, n)
        c["rho"], c["sigma"] = a, a.copy()
    elif family == "near_equal":
        a = dense.random_mixed(rng, n)
        b = a + 1e-9 * (dense.random_mixed(rng, n) - a)
        c["rho"], c["sigma"] = a, b
    elif family == "near_pure":
        eps = [1e-10, 1e-8, 1e-6, 1e-4, 1e-3][int(rng.integers(5))]
        a = (1 - eps) * dense.random_pure(rng, n) + eps * dense.random_mixed(rng, n)
        b = dense.random_mixed(rng, n) if rng.random() < 0.7 else (1 - eps) * dense.random_pure(rng, n) + eps * dense.random_mixed(rng, n)
        c["rho"], c["sigma"] = (a, b) if rng.random() < 0.5 else (b, a)
    elif family == "orthogonal":
        U = dense.random_unitary(rng, d)
        k = int(rng.integers(1, d))
        p = np.zeros(d)
        q = np.zeros(d)
        p[:k] = rng.dirichlet(np.ones(k))
        q[k:] = rng.dirichlet(np.ones(d - k))
        c["rho"], c["sigma"] = U @ np.diag(p) @ U.conj().T, U @ np.diag(q) @ U.conj().T
    elif family in ("stab_pair", "metric_rep"):
        t1 = pauli.random_stabilizer_group(rng, n)
        if rng.random() < 0.25:
            t2 = pauli.scramble_generators(rng, t1)
        else:
            t2 = t1.copy()
            for g in pauli.random_clifford_word(rng, n, int(rng.integers(1, 4))):
                t2.apply(*g)
            t2 = pauli.scramble_generators(rng, t2)
        c["t1"], c["t2"] = t1, t2
        c["rho"], c["sigma"] = dense.projector_of_group(t1), dense.projector_of_group(t2)
    elif family == "triangle":
        c["rho"], c["sigma"], c["tau"] = [dense.random_mixed(rng, n) if rng.random() < 0.7 else dense.random_pure(rng, n)
                                          for _ in range(3)]
    elif family in ("ptrace", "ptrace_state"):
        n = max(n, 2)
        c["n"] = n
        kind = int(rng.integers(4))
        if kind == 0:   # random stabilizer (entangled) state
            t = pauli.random_stabilizer_group(rng, n)
            rho = dense.projector_of_group(t)
        elif kind == 1:  # GHZ-like / Bell with local rotations
            v = np.zeros(2 ** n, dtype=complex)
            v[0] = v[-1] = 1 / np.sqrt(2)
            rho = dense.ket2dm(v)
            for q in range(n):
                rho = dense.conj_apply(rho, dense.random_unitary(rng, 2), [q], n)
        elif kind == 2:
            rho = dense.random_pure(rng, n)
        else:
            rho = dense.random_mixed(rng, n)
        c["rho"] = rho
        subsets = [list(s) for k in range(1, n + 1) for s in itertools.combinations(range(n), k)]      # incl. keeping everything
        c["keep"] = subsets[int(rng.integers(len(subsets)))]
        c["all_subsets"] = subsets
    else:
        raise ValueError(family)
    return c


def _digest(c):
    parts = [c["family"]]
    for k in ("rho", "sigma", "tau"):
        if k in c:
            parts.append(np.round(c[k], 9).tobytes())
    if "keep" in c:
        parts.append(tuple(c["keep"]))
    return tuple(parts)


# --------------------------------------------------------------------------------------------- checks
def run_shard(spec, ctx):
    per = spec["per_family"]
    for fi, fam in enumerate(FAMILIES):
        for i in range(per):
            seedt = [spec["seed"], spec["shard"], fi, i]
            check_case({"family": fam, "seed": seedt, "nmax": spec["nmax"]}, ctx)


def replay(case, ctx):
    check_case(case, ctx)


def _call(ctx, desc, what, f, *a):
    before = [x.copy() if isinstance(x, np.ndarray) else None for x in a]
    try:
        out = f(*a)
        for i, (x, b) in enumerate(zip(a, before)):
            if b is not None:
                ctx.count("arguments:checked_unchanged")
                if x.shape != b.shape or not np.allclose(x, b, atol=1e-12, rtol=0):
                    ctx.violation("argument_modified_in_place", desc, {"call": what, "argument_index": i,
                                                                        "max_abs_change": float(np.max(np.abs(x - b))) if x.shape == b.shape else "shape"},
                                  key=f"arg_modified:{what}")
        if isinstance(out, np.ndarray) and out.ndim >= 1 and out.flags.writeable:
            # the caller overwrites the array it was handed; neither its arguments nor any later answer may notice
            keep = out.copy()
            out[...] = 7
            ctx.count("results:overwritten_by_caller")
            for i, (x, b) in enumerate(zip(a, before)):
                if b is not None and (x.shape != b.shape or not np.allclose(x, b, atol=1e-12, rtol=0)):
                    # not a violation: a result that is a view of its argument (partial_trace keeping every qubit: einsum
                    # returns a view) is not excluded by the property; counted, and the argument is restored
                    ctx.count("results:view_of_argument")
                    x[...] = b
            out = keep
        return True, out
    except Exception as e:  # any exception on valid density matrices refutes the property
        ctx.violation("exception:" + what, desc, {"call": what, "exception": f"{type(e).__name__}: {e}"[:300]},
                      key=f"{what}:{type(e).__name__}")
        return False, None


def check_case(desc, ctx):
    import graphiq.backends.density_matrix.functions as dmf
    c = gen(desc["family"], desc["seed"], desc["nmax"])
    fam, n = c["family"], c["n"]
    ctx.count("family:" + fam)
    nontrivial = True
    sample = None
    if ctx.evaluations % 200 == 0:
        sample = {"family": fam, "n": n, "seed": desc["seed"], "rho_diag": np.real(np.diag(c["rho"])).round(4).tolist()[:8]}
    ctx.case(_digest(c), nontrivial, sample)

    if fam in ("ptrace", "ptrace_state"):
        rho, keep = c["rho"], c["keep"]
        ref = dense.partial_trace(rho, keep, n)
        ent = abs(np.real(np.trace(ref @ ref)) - np.real(np.trace(rho @ rho))) > 1e-6
        if ent:
            ctx.count("ptrace:entangled_cases")
        if fam == "ptrace":
            ok, got = _call(ctx, desc, "partial_trace", dmf.partial_trace, rho.copy(), keep, n * [2])
        else:
            from graphiq.state import QuantumState
            from graphiq.backends.density_matrix.state import DensityMatrix

            def via_state(r, k, dims):
                if desc["seed"][-1] % 2 == 0:
                    s = DensityMatrix(r, normalized=False) if False else DensityMatrix(r)
                    s.partial_trace(k, dims)
                    return s.data
                s = QuantumState(r, rep_type="dm")
                s.partial_trace(k, dims)
                return s.rep_data.data
            ok, got = _call(ctx, desc, "state.partial_trace", via_state, rho.copy(), keep, n * [2])
        if ok:
            ctx.count("ptrace:calls")
            if got.shape != ref.shape or not np.allclose(got, ref, atol=1e-8, rtol=0):
                ctx.violation("partial_trace_wrong", desc,
                              {"n": n, "keep": keep, "trace_got": complex(np.trace(got)), "trace_ref": complex(np.trace(ref)),
                               "max_abs_diff": float(np.max(np.abs(got - ref))) if got.shape == ref.shape else "shape"},
                              key="partial_trace_wrong")
        return

    rho, sigma = c["rho"], c["sigma"]
    if fam == "triangle":
        tau = c["tau"]
        vals = {}
        for name, (a, b) in {"rs": (rho, sigma), "st": (sigma, tau), "rt": (rho, tau)}.items():
            ok, v = _call(ctx, desc, "trace_distance", dmf.trace_distance, a.copy(), b.copy())
            if not ok:
                return
            vals[name] = float(np.real(v))
        ctx.count("td:triangles")
        if vals["rt"] > vals["rs"] + vals["st"] + TOL:
            ctx.violation("triangle_inequality", desc, vals, key="td_triangle")
        return

    if fam == "metric_rep":
        return check_metric_rep(desc, c, ctx)

    # ---- fidelity
    fref = dense.uhlmann_fidelity(rho, sigma)
    pure_r = abs(np.real(np.trace(rho @ rho)) - 1) < 1e-9
    pure_s = abs(np.real(np.trace(sigma @ sigma)) - 1) < 1e-9
    if not pure_r and not pure_s:
        ctx.count("fid:mixed_mixed_branch")
    if fref < 0.99:
        ctx.count("fid:value_lt_0.99")
    ok1, f1 = _call(ctx, desc, "fidelity", dmf.fidelity, rho.copy(), sigma.copy())
    ok2, f2 = _call(ctx, desc, "fidelity", dmf.fidelity, sigma.copy(), rho.copy())
    if ok1 and ok2:
        ctx.count("fid:calls", 2)
        f1, f2 = float(np.real(f1)), float(np.real(f2))
        det = {"n": n, "f(rho,sigma)": f1, "f(sigma,rho)": f2, "reference": fref, "pure": [bool(pure_r), bool(pure_s)]}
        if abs(f1 - f2) > TOL:
            ctx.violation("fidelity_asymmetric", desc, det, key="fid_asym")
        if f1 < -TOL or f1 > 1 + TOL:
            ctx.violation("fidelity_out_of_range", desc, det, key="fid_range")
        if abs(f1 - fref) > 5e-6:
            ctx.violation("fidelity_value", desc, det, key="fid_value")
        same = np.allclose(rho, sigma, atol=1e-12, rtol=0)
        if same and abs(f1 - 1) > TOL:
            ctx.violation("fidelity_equal_states_not_1", desc, det, key="fid_equal")
        if (not same) and dense.trace_distance(rho, sigma) > 1e-3 and f1 > 1 - 1e-9:
            ctx.violation("fidelity_1_for_different_states", desc, det, key="fid_one")
    # ---- sqrtm
    if fam in ("mixed_mixed", "mixed_rankdef", "commuting"):
        ok, sq = _call(ctx, desc, "sqrtm_psd", dmf.sqrtm_psd, rho.copy())
        if ok:
            ctx.count("sqrtm:calls")
            if not np.allclose(sq @ sq, rho, atol=1e-8, rtol=0):
                ctx.violation("sqrtm_wrong", desc, {"max_abs_err": float(np.max(np.abs(sq @ sq - rho)))}, key="sqrtm")
    # ---- trace distance
    tref = dense.trace_distance(rho, sigma)
    ok1, t1 = _call(ctx, desc, "trace_distance", dmf.trace_distance, rho.copy(), sigma.copy())
    ok2, t2 = _call(ctx, desc, "trace_distance", dmf.trace_distance, sigma.copy(), rho.copy())
    if ok1 and ok2:
        ctx.count("td:calls", 2)
        t1, t2 = float(np.real(t1)), float(np.real(t2))
        det = {"n": n, "T(rho,sigma)": t1, "T(sigma,rho)": t2, "reference": tref, "F_ref": fref}
        if abs(t1 - t2) > TOL:
            ctx.violation("td_asymmetric", desc, det, key="td_asym")
        if abs(t1 - tref) > TOL * 10:
            ctx.violation("td_value", desc, det, key="td_value")
        if t1 > 1 + TOL or t1 < -TOL:
            ctx.violation("td_range", desc, det, key="td_range")
        if not (1 - np.sqrt(max(fref, 0)) <= t1 + 1e-6 and t1 <= np.sqrt(max(1 - fref, 0)) + 1e-6):
            ctx.violation("fuchs_van_de_graaf", desc, det, key="fvdg")
        ok, t0 = _call(ctx, desc, "trace_distance", dmf.trace_distance, rho.copy(), rho.copy())
        if ok and abs(float(np.real(t0))) > TOL:
            ctx.violation("td_self_nonzero", desc, {"T(rho,rho)": float(np.real(t0))}, key="td_self")
    # ---- is_pure monitor
    ok, ip = _call(ctx, desc, "is_pure", dmf.is_pure, rho.copy())
    if ok and bool(ip) != bool(pure_r) and abs(np.real(np.trace(rho @ rho)) - 1) > 1e-4:
        ctx.violation("is_pure_wrong", desc, {"purity": float(np.real(np.trace(rho @ rho))), "is_pure": bool(ip)}, key="is_pure")


def check_metric_rep(desc, c, ctx):
    """Infidelity.evaluate with (target, state) both as stabilizers vs both as density matrices vs mixed"""
    from graphiq.state import QuantumState
    from graphiq.metrics import Infidelity, TraceDistance
    rng = np.random.default_rng(desc["seed"] + [99])
    t1, t2, n = c["t1"], c["t2"], c["n"]
    ref = 1 - float(np.real(np.trace(c["rho"] @ c["sigma"])))
    vals = {}

    def mk(t, rep):
        if rep == "s":
            return QuantumState(gq.ptab_to_clifford(t, rng), rep_type="s")
        return QuantumState(dense.projector_of_group(t), rep_type="dm")

    # the caller's objects are made once and used for every evaluation, as a long-lived target / state is: an evaluation must
    # not leave them in a condition that changes a later value.  (s target, dm state) is not evaluated: converting a density
    # matrix into a stabilizer is not one of the representation pairs C17 names.
    objs = {("t", "s"): mk(t1, "s"), ("t", "dm"): mk(t1, "dm"), ("x", "s"): mk(t2, "s"), ("x", "dm"): mk(t2, "dm")}
    order = [("dm", "s"), ("s", "s"), ("dm", "dm"), ("dm", "s"), ("s", "s")]
    if rng.random() < 0.5:
        order = [("s", "s"), ("dm", "dm"), ("dm", "s"), ("s", "s")]
    seen = {}
    for tr, sr in order:
        name = f"{tr},{sr}" + ("" if (tr, sr) not in seen else "#2")
        seen[(tr, sr)] = True
        ok, v = _call(ctx, desc, f"Infidelity.evaluate[{tr},{sr}]", lambda: Infidelity(objs[("t", tr)]).evaluate(objs[("x", sr)], None))
        if ok:
            vals[name] = float(np.real(v))
            ctx.count("metric_rep:evaluations_on_reused_objects")
    ctx.count("metric_rep:pairs")
    det = {"n": n, "values": vals, "reference": ref, "order": [f"{a},{b}" for a, b in order]}
    bad = [k for k, v in vals.items() if abs(v - ref) > TOL * 10]
    if bad:
        key = "infid_rep:" + bad[0]
        # mechanism of the known finding: only the evaluations that convert a stabilizer state into a density matrix are
        # off, the state has a negative generator sign, and the value is the infidelity with the sign-stripped state
        if set(bad) <= {"dm,s", "dm,s#2"}:
            x, z, r, _ = t2.to_graphiq()
            if r.any():
                stripped = pauli.PTab.from_graphiq(x, z, 0 * r)
                bug = 1 - float(np.real(np.trace(c["rho"] @ dense.projector_of_group(stripped))))
                if all(abs(vals[b] - bug) < TOL * 10 for b in bad):
                    key = "stab-to-density-ignores-signs"
        ctx.violation("infidelity_representation_mismatch", desc, det, key=key)
    ok, v = _call(ctx, desc, "TraceDistance.evaluate", lambda: TraceDistance(mk(t1, "dm")).evaluate(mk(t2, "dm"), None))
    if ok and abs(float(np.real(v)) - dense.trace_distance(c["rho"], c["sigma"])) > TOL * 10:
        ctx.violation("trace_distance_metric", desc, {"got": float(np.real(v))}, key="td_metric")
