"""C15 - circuits reported equal are equivalent; de-duplication keeps every distinct one.
Boundary monitors on CircuitDAG.compare / compare_circuits (direct, is_isomorphic, GED_*), check_redundant_circuit,
remove_redundant_circuits, CircuitStorage.  Oracle: two circuits are equivalent iff, for |0..0> and two random stabilizer
input states, the reference (vlib.ref.circsim) yields the same multiset of (branch probability, final state, classical
record) over all measurement-outcome branches; for the isomorphism method up to a renaming of registers within each type."""
import copy
import itertools
import numpy as np

from ..gen import programs
from ..gen.programs import Program, make_gq_op, ONEQ
from ..ref import circsim, dense, pauli

ID = "C15"
LEVEL = "exploration"
RULE = ("pairs (c, perturbation of c) over the Clifford alphabet incl. measurements on <= 4 qubits: identical rebuild, copy, swapped "
        "control/target of one gate, gate moved to another register of the same type, gate moved across a neighbour, wrapped / "
        "unwrapped one-qubit gates, inserted identities, two registers of one type exchanged everywhere, direction of a classically "
        "controlled gate reversed, one gate replaced, plus independent pairs; lists of 3-8 such circuits for the redundancy filters. "
        "distinct = distinct (program1, program2, method) digest; non-trivial = the two operation lists differ")
ASSUMPTIONS = ["equivalence is decided on three probe inputs (|0..0> and two random stabilizer states); two inequivalent circuits that "
               "agree on all three would be taken for equivalent (this can only hide a violation, never raise a false alarm)",
               "parameterised (non-Clifford) gates are outside the vocabulary and are not generated",
               "GED methods are only run on circuits with <= 7 nodes; their internal 10 s time-out is counted, not judged"]
TIMEOUT = {"quick": 900, "thorough": 7200}
PERTS = ["same", "copy", "swap_ct", "move_reg", "commute", "wrap", "unwrap", "identity", "exchange_regs", "exchange_tail", "flip_classical", "replace", "independent"]


def shards(tier, seed):
    out = [{"kind": "pairs", "count": 110 if tier == "quick" else 1500, "seed": seed, "shard": i} for i in range(12)]
    out += [{"kind": "lists", "count": 15 if tier == "quick" else 300, "seed": seed, "shard": i} for i in range(4)]
    return out


def floors(tier):
    f = {"compare:direct": 500, "compare:is_isomorphic": 500, "compare:true_answers": 300, "compare:false_answers": 300,
         "oracle:equivalent": 200, "oracle:inequivalent": 200, "lists:remove_redundant": 40, "lists:storage": 40, "lists:dropped": 30,
         "compare:GED": 10, "far_pairs": 60, "compare:GED_far_verdicts": 100}
    for p in PERTS:
        f["pert:" + p] = 15
    return f


# ------------------------------------------------------------------------------------------------ programs as op lists
def rand_ops(rng, n_e, n_p, n_c, L):
    regs = [("e", i) for i in range(n_e)] + [("p", i) for i in range(n_p)]
    ops = []
    alpha = ONEQ + ["W", "CNOT", "CNOT", "CZ", "cCNOT", "cCZ", "MR", "MZ"]
    for _ in range(L):
        k = alpha[int(rng.integers(len(alpha)))]
        if k in ("cCNOT", "cCZ", "MR", "MZ") and n_c == 0:
            k = "H"
        if k in ("CNOT", "CZ", "cCNOT", "cCZ", "MR") and len(regs) < 2:
            k = "X"
        if k in ONEQ:
            ops.append({"kind": k, "q": [regs[int(rng.integers(len(regs)))]]})
        elif k == "W":
            ops.append({"kind": "W", "q": [regs[int(rng.integers(len(regs)))]], "gates": [ONEQ[int(rng.integers(7))] for _ in range(int(rng.integers(1, 4)))]})
        elif k == "MZ":
            ops.append({"kind": "MZ", "q": [regs[int(rng.integers(len(regs)))]], "c": int(rng.integers(n_c))})
        else:
            a, b = (regs[int(i)] for i in rng.choice(len(regs), 2, replace=False))
            d = {"kind": k, "q": [a, b]}
            if k in ("cCNOT", "cCZ", "MR"):
                d["c"] = int(rng.integers(n_c))
            ops.append(d)
    return ops


def build(n_e, n_p, n_c, oplist):
    from graphiq.circuit.circuit_dag import CircuitDAG
    prog = Program(n_e, n_p, n_c)
    circ = CircuitDAG(n_emitter=n_e, n_photon=n_p, n_classical=n_c)
    for d in oplist:
        op = prog.new_op(d["kind"], [tuple(x) for x in d["q"]], d.get("c"), d.get("gates"))
        op.obj = make_gq_op(op)
        circ.add(op.obj)
        prog.spec_add(op)
    return prog, circ


def perturb(rng, ops, regs_by_type, kind):
    ops = copy.deepcopy(ops)
    two = [i for i, d in enumerate(ops) if len(d["q"]) == 2]
    one = [i for i, d in enumerate(ops) if d["kind"] in ONEQ]
    if kind in ("same", "copy"):
        return ops
    if kind == "swap_ct" and two:
        i = two[int(rng.integers(len(two)))]
        ops[i]["q"] = ops[i]["q"][::-1]
        return ops
    if kind == "flip_classical":
        cc = [i for i in two if ops[i]["kind"] in ("cCNOT", "cCZ", "MR")]
        if cc:
            i = cc[int(rng.integers(len(cc)))]
            ops[i]["q"] = ops[i]["q"][::-1]
            return ops
        return None
    if kind == "move_reg" and ops:
        i = int(rng.integers(len(ops)))
        j = int(rng.integers(len(ops[i]["q"])))
        t = ops[i]["q"][j][0]
        cand = [r for r in regs_by_type[t] if r not in [tuple(x) for x in ops[i]["q"]]]
        if not cand:
            return None
        ops[i]["q"][j] = cand[int(rng.integers(len(cand)))]
        return ops
    if kind == "commute" and len(ops) >= 2:
        i = int(rng.integers(len(ops) - 1))
        ops[i], ops[i + 1] = ops[i + 1], ops[i]
        return ops
    if kind == "wrap" and one:
        i = one[int(rng.integers(len(one)))]
        ops[i] = {"kind": "W", "q": ops[i]["q"], "gates": [ops[i]["kind"]]}
        # also merge with a following one-qubit gate on the same register if adjacent
        if i + 1 < len(ops) and ops[i + 1]["kind"] in ONEQ and ops[i + 1]["q"] == ops[i]["q"]:
            nxt = ops.pop(i + 1)
            ops[i]["gates"] = [nxt["kind"]] + ops[i]["gates"]       # later gate is listed first
        return ops
    if kind == "unwrap":
        ws = [i for i, d in enumerate(ops) if d["kind"] == "W"]
        if not ws:
            return None
        i = ws[int(rng.integers(len(ws)))]
        w = ops[i]
        ops[i:i + 1] = [{"kind": g, "q": w["q"]} for g in reversed(w["gates"])]
        return ops
    if kind == "identity":
        regs = regs_by_type["e"] + regs_by_type["p"]
        for _ in range(int(rng.integers(1, 4))):
            ops.insert(int(rng.integers(len(ops) + 1)), {"kind": "I", "q": [regs[int(rng.integers(len(regs)))]]})
        return ops
    if kind == "exchange_regs":
        ts = [t for t in ("e", "p") if len(regs_by_type[t]) >= 2]
        if not ts:
            return None
        t = ts[int(rng.integers(len(ts)))]
        a, b = (regs_by_type[t][int(i)] for i in rng.choice(len(regs_by_type[t]), 2, replace=False))
        for d in ops:
            d["q"] = [b if tuple(x) == a else (a if tuple(x) == b else tuple(x)) for x in d["q"]]
        return ops
    if kind == "exchange_tail":
        # everything after a two-qubit gate on two registers of the same type is exchanged between those two registers
        # (CNOT a,b; H a; P b  ->  CNOT a,b; P a; H b): the wires differ only in which role of the gate they left with
        same_t = [i for i in two if ops[i]["q"][0][0] == ops[i]["q"][1][0] and i + 1 < len(ops)]
        if not same_t:
            return None
        i = same_t[int(rng.integers(len(same_t)))]
        a, b = tuple(ops[i]["q"][0]), tuple(ops[i]["q"][1])
        if not any(any(tuple(x) in (a, b) for x in d["q"]) for d in ops[i + 1:]):
            # nothing follows on either wire: put two different one-qubit gates there first
            ops.insert(i + 1, {"kind": "H", "q": [a]})
            ops.insert(i + 2, {"kind": "P", "q": [b]})
        for d in ops[i + 1:]:
            d["q"] = [b if tuple(x) == a else (a if tuple(x) == b else tuple(x)) for x in d["q"]]
        return ops
    if kind == "replace" and ops:
        i = int(rng.integers(len(ops)))
        k = ops[i]["kind"]
        alt = {"CNOT": "CZ", "CZ": "CNOT", "cCNOT": "cCZ", "cCZ": "cCNOT", "MR": "cCNOT", "MZ": "MZ", "W": "W"}
        if k in ONEQ:
            ops[i]["kind"] = [g for g in ONEQ if g != k][int(rng.integers(6))]
        elif k == "W":
            ops[i]["gates"] = ops[i]["gates"][::-1] + ["P"]
        else:
            ops[i]["kind"] = alt[k]
        return ops
    return None


# ------------------------------------------------------------------------------------------------ equivalence oracle
def behaviour(prog, probes):
    """for each probe input: sorted list of (prob, rounded final rho bytes, creg) over all outcome branches"""
    order = prog.linear_extension()
    out = []
    for g0 in probes:
        res = []
        stack = [(0, 1.0, circsim.RefState(prog.n_p, prog.n_e, prog.n_c, rho0=None if g0 is None else dense.projector_of_group(g0), group0=g0))]
        while stack:
            i, pr, st = stack.pop()
            while i < len(order) and order[i].kind not in ("MZ", "MR", "cCNOT", "cCZ"):
                st.apply(order[i])
                i += 1
            if i == len(order):
                res.append((round(pr, 9), (np.round(st.rho, 7) + (0 + 0j)).tobytes(), tuple(st.creg)))
                continue
            p = st.probs(st.q(order[i].q[0]))
            for m in (0, 1):
                if p[m] < 1e-9:
                    continue
                s2 = circsim.RefState(prog.n_p, prog.n_e, prog.n_c)
                s2.rho, s2.group, s2.creg = st.rho.copy(), None, list(st.creg)
                s2.group = None
                s2.apply(order[i], m)
                stack.append((i + 1, pr * p[m], s2))
        # merge identical (state, creg) branches
        merged = {}
        for pr, b, c in res:
            merged[(b, c)] = merged.get((b, c), 0) + pr
        out.append(sorted((round(v, 8), k) for k, v in merged.items()))
    return out


def rename(prog_ops, n_e, n_p, n_c, pe, pp, pc):
    ops = copy.deepcopy(prog_ops)
    for d in ops:
        d["q"] = [(t, (pe if t == "e" else pp)[i]) for t, i in [tuple(x) for x in d["q"]]]
        if d.get("c") is not None:
            d["c"] = pc[d["c"]]
    return ops


class Oracle:
    def __init__(self, rng, n_e, n_p, n_c):
        self.n_e, self.n_p, self.n_c = n_e, n_p, n_c
        n = n_e + n_p
        self.probes = [None, pauli.random_stabilizer_group(rng, n), pauli.random_stabilizer_group(rng, n)]
        self.cache = {}

    def beh(self, ops, probes=None):
        key = repr(ops) + ("" if probes is None else "P")
        if key not in self.cache:
            prog = Program(self.n_e, self.n_p, self.n_c)
            for d in ops:
                op = prog.new_op(d["kind"], [tuple(x) for x in d["q"]], d.get("c"), d.get("gates"))
                prog.spec_add(op)
            self.cache[key] = behaviour(prog, self.probes if probes is None else probes)
        return self.cache[key]

    def equivalent(self, ops1, ops2):
        return self.beh(ops1) == self.beh(ops2)

    def equivalent_up_to_renaming(self, ops1, ops2):
        if self.equivalent(ops1, ops2):
            return True
        # renaming registers of circuit 2 also renames the qubits of the probe inputs and of the final states: compare on
        # |0..0> only (permutation invariant) after renaming the registers back
        b1 = self.beh(ops1, [None])
        n = self.n_e + self.n_p
        for pe in itertools.permutations(range(self.n_e)):
            for pp in itertools.permutations(range(self.n_p)):
                for pc in itertools.permutations(range(self.n_c)):
                    r = rename(ops2, self.n_e, self.n_p, self.n_c, pe, pp, pc)
                    prog = Program(self.n_e, self.n_p, self.n_c)
                    for d in r:
                        prog.spec_add(prog.new_op(d["kind"], [tuple(x) for x in d["q"]], d.get("c"), d.get("gates")))
                    if behaviour(prog, [None]) == b1:
                        return True
        return False


# ------------------------------------------------------------------------------------------------ checks
def run_shard(spec, ctx):
    for i in range(spec["count"]):
        seedt = [spec["seed"], 15 if spec["kind"] == "pairs" else 151, spec["shard"], i]
        (check_pair if spec["kind"] == "pairs" else check_list)(seedt, ctx)
        if spec["kind"] == "pairs" and i % 12 == 0:
            check_far_pair([spec["seed"], 152, spec["shard"], i], ctx)


def replay(case, ctx):
    {"pair": check_pair, "far_pair": check_far_pair}.get(case["kind"], check_list)(case["seed"], ctx)


def exchange_tail_pair(rng, ops, regs_by_type):
    """two circuits that agree up to and including a two-qubit gate on two registers a, b of the same type and then apply
    two different one-qubit gates the one way round (g1 on a, g2 on b) and the other (g2 on a, g1 on b), followed by the same
    rest: they differ only in which role of the gate each wire left with"""
    ops = copy.deepcopy(ops)
    ts = [t for t in ("e", "p") if len(regs_by_type[t]) >= 2]
    if not ts:
        return None
    two = [i for i, d in enumerate(ops) if d["kind"] in ("CNOT", "CZ") and d["q"][0][0] == d["q"][1][0]]
    if two and rng.random() < 0.7:
        i = two[int(rng.integers(len(two)))]
    else:
        t = ts[int(rng.integers(len(ts)))]
        a, b = (regs_by_type[t][int(j)] for j in rng.choice(len(regs_by_type[t]), 2, replace=False))
        i = int(rng.integers(len(ops) + 1))
        ops.insert(i, {"kind": "CNOT", "q": [a, b]})
    a, b = tuple(ops[i]["q"][0]), tuple(ops[i]["q"][1])
    g1, g2 = (["H", "P", "X", "Pdag", "Y"][int(j)] for j in rng.choice(5, 2, replace=False))
    keep = rng.random() < 0.5
    rest = ops[i + 1:] if keep else [d for d in ops[i + 1:] if not any(tuple(x) in (a, b) for x in d["q"])]
    o1 = ops[:i + 1] + [{"kind": g1, "q": [a]}, {"kind": g2, "q": [b]}] + copy.deepcopy(rest)
    o2 = copy.deepcopy(ops[:i + 1]) + [{"kind": g2, "q": [a]}, {"kind": g1, "q": [b]}] + copy.deepcopy(rest)
    return o1, o2


def gen_base(rng):
    while True:
        n_e, n_p = int(rng.integers(0, 4)), int(rng.integers(0, 4))
        if 1 <= n_e + n_p <= 4:
            break
    n_c = int(rng.integers(0, 3))
    L = int(rng.integers(1, 9))
    return n_e, n_p, n_c, rand_ops(rng, n_e, n_p, n_c, L)


def _txt(ops):
    return [d["kind"] + ("[" + " ".join(d["gates"]) + "]" if d.get("gates") else "") + " " + ",".join(f"{t}{i}" for t, i in [tuple(x) for x in d["q"]]) +
            (f"->c{d['c']}" if d.get("c") is not None else "") for d in ops]


class _Deadline(Exception):
    pass


def _with_deadline(seconds, fn):
    """run fn() under a wall-clock watchdog (SIGALRM; the workers are single-threaded). A firing watchdog is inconclusive,
    never a verdict: graphiq's approximate GED search has no time budget of its own and can run for hours on distant circuits"""
    import signal

    def handler(sig, frm):
        raise _Deadline()
    old = signal.signal(signal.SIGALRM, handler)
    signal.setitimer(signal.ITIMER_REAL, seconds)
    try:
        return fn()
    finally:
        signal.setitimer(signal.ITIMER_REAL, 0)
        signal.signal(signal.SIGALRM, old)


def check_far_pair(seedt, ctx):
    """circuits on the same registers that are many edits apart (beyond the bound / budget the GED methods search within):
    'no edit path found' must not come out as 'equal'"""
    rng = np.random.default_rng(seedt)
    while True:
        n_e, n_p = int(rng.integers(0, 3)), int(rng.integers(0, 3))
        if 2 <= n_e + n_p <= 4:
            break
    ops1 = [d for d in rand_ops(rng, n_e, n_p, 0, int(rng.integers(12, 22))) if d["kind"] not in ("MZ", "MR", "cCNOT", "cCZ")]
    ops2 = [] if rng.random() < 0.5 else [d for d in rand_ops(rng, n_e, n_p, 0, int(rng.integers(1, 3))) if d["kind"] not in ("MZ", "MR", "cCNOT", "cCZ")]
    prog1, c1 = build(n_e, n_p, 0, ops1)
    prog2, c2 = build(n_e, n_p, 0, ops2)
    orc = Oracle(rng, n_e, n_p, 0)
    case = {"kind": "far_pair", "seed": seedt, "registers": [n_e, n_p, 0], "circuit1": _txt(ops1), "circuit2": _txt(ops2)}
    same = orc.equivalent_up_to_renaming(ops1, ops2)
    ctx.count("far_pairs")
    for method in ("GED_full", "GED_adaptive", "GED_approximate"):
        ctx.case((tuple(_txt(ops1)), tuple(_txt(ops2)), method, "far"), True, {"circuit1": _txt(ops1), "circuit2": _txt(ops2), "method": method} if ctx.evaluations % 300 == 0 else None)
        import time as _time
        t0 = _time.time()
        try:
            a = bool(_with_deadline(12.0, lambda: c1.compare(c2, method=method)))
        except _Deadline:
            ctx.count("compare:GED_watchdog_inconclusive")
            continue
        except StopIteration:
            ctx.count("compare:GED_no_edit_path_within_bound")      # no verdict was given
            continue
        except Exception as e:
            ctx.violation("compare_raises", case, {"method": method, "exception": f"{type(e).__name__}: {e}"[:300]}, key=f"compare_exc:{method}:{type(e).__name__}")
            continue
        if _time.time() - t0 > 4.0:
            ctx.count("compare:GED_slow_inconclusive")
            continue
        ctx.count("compare:GED_far_verdicts")
        if a and not same:
            ctx.violation("reported_equal_but_inequivalent", case, {"method": method, "compare(c1,c2)": a, "operations_apart": len(ops1) - len(ops2)}, key=f"unsound:{method}:far")


def check_pair(seedt, ctx):
    rng = np.random.default_rng(seedt)
    n_e, n_p, n_c, ops1 = gen_base(rng)
    regs_by_type = {"e": [("e", i) for i in range(n_e)], "p": [("p", i) for i in range(n_p)]}
    kind = PERTS[int(rng.integers(len(PERTS)))]
    if kind == "independent":
        ops2 = rand_ops(rng, n_e, n_p, n_c, int(rng.integers(1, 9)))
    elif kind == "exchange_tail":
        both = exchange_tail_pair(rng, ops1, regs_by_type)
        if both is None:
            kind = "same"
            ops2 = copy.deepcopy(ops1)
        else:
            ops1, ops2 = both
    else:
        ops2 = perturb(rng, ops1, regs_by_type, kind)
        if ops2 is None:
            kind = "same"
            ops2 = copy.deepcopy(ops1)
    ctx.count("pert:" + kind)
    prog1, c1 = build(n_e, n_p, n_c, ops1)
    if kind == "copy":
        c2 = c1.copy()
    else:
        prog2, c2 = build(n_e, n_p, n_c, ops2)
    orc = Oracle(rng, n_e, n_p, n_c)
    case = {"kind": "pair", "seed": seedt, "perturbation": kind, "registers": [n_e, n_p, n_c], "circuit1": _txt(ops1), "circuit2": _txt(ops2)}
    methods = ["direct", "is_isomorphic"]
    if c1.dag.number_of_nodes() <= 7 and c2.dag.number_of_nodes() <= 7 and rng.random() < 0.25:
        methods.append(["GED_full", "GED_adaptive", "GED_approximate"][int(rng.integers(3))])
    for method in methods:
        ctx.count("compare:" + ("GED" if method.startswith("GED") else method))
        ctx.case((tuple(_txt(ops1)), tuple(_txt(ops2)), method, kind == "copy"), ops1 != ops2,
                 {"circuit1": _txt(ops1), "circuit2": _txt(ops2), "method": method} if ctx.evaluations % 300 == 0 else None)
        try:
            import time as _time
            t0 = _time.time()
            if method.startswith("GED"):
                try:
                    a12 = bool(_with_deadline(25.0, lambda: c1.compare(c2, method=method)))
                    a21 = bool(_with_deadline(25.0, lambda: c2.compare(c1, method=method)))
                except _Deadline:
                    ctx.count("compare:GED_watchdog_inconclusive")
                    continue
            else:
                a12 = bool(c1.compare(c2, method=method))
                a21 = bool(c2.compare(c1, method=method))
            if method.startswith("GED") and _time.time() - t0 > 4.0:
                # graphiq gives its exact GED search a 10 s wall-clock budget; near it the answer is load dependent
                ctx.count("compare:GED_slow_inconclusive")
                continue
        except Exception as e:
            ctx.violation("compare_raises", case, {"method": method, "exception": f"{type(e).__name__}: {e}"[:300]}, key=f"compare_exc:{method}:{type(e).__name__}")
            continue
        ctx.count("compare:true_answers" if a12 else "compare:false_answers")
        det = {"method": method, "compare(c1,c2)": a12, "compare(c2,c1)": a21, "perturbation": kind}
        if a12 != a21 and not method.startswith("GED_approx"):
            ctx.violation("compare_not_symmetric", case, det, key=f"asym:{method}")
        if kind in ("copy", "same") and not a12:
            ctx.violation("compare_not_reflexive_on_copies", case, det, key=f"reflexive:{method}")
        if kind in ("wrap", "unwrap", "identity") and method in ("direct", "GED_full", "GED_adaptive") and not a12:
            ctx.violation("compare_sensitive_to_wrapping_or_identities", case, det, key=f"wrapping:{method}")
        if a12:
            eq = orc.equivalent_up_to_renaming(ops1, ops2) if method == "is_isomorphic" else orc.equivalent(ops1, ops2)
            ctx.count("oracle:equivalent" if eq else "oracle:inequivalent")
            if not eq:
                classical = [d["kind"] for d in ops1 + ops2 if d["kind"] in ("cCNOT", "cCZ", "MR")]
                ctx.violation("reported_equal_but_inequivalent", case, {**det, "up_to_register_renaming": method == "is_isomorphic"},
                              key=f"unsound:{method}:{kind}")
        else:
            eq = orc.equivalent(ops1, ops2)
            ctx.count("oracle:equivalent" if eq else "oracle:inequivalent")
    # check_redundant_circuit documents unwrapping
    from graphiq.utils.circuit_comparison import check_redundant_circuit
    try:
        r = bool(check_redundant_circuit(c1, c2))
        if r and not orc.equivalent(ops1, ops2):
            ctx.violation("check_redundant_circuit_unsound", case, {"perturbation": kind}, key="unsound:check_redundant")
        if kind in ("wrap", "unwrap", "identity", "same", "copy") and not r:
            ctx.violation("check_redundant_circuit_sensitive_to_wrapping", case, {"perturbation": kind}, key="wrapping:check_redundant")
    except Exception as e:
        ctx.violation("check_redundant_circuit_raises", case, {"exception": f"{type(e).__name__}: {e}"[:300]}, key="compare_exc:check_redundant")


def check_list(seedt, ctx):
    from graphiq.utils.circuit_comparison import remove_redundant_circuits, CircuitStorage
    rng = np.random.default_rng(seedt)
    n_e, n_p, n_c, base = gen_base(rng)
    regs_by_type = {"e": [("e", i) for i in range(n_e)], "p": [("p", i) for i in range(n_p)]}
    oplists = [base]
    for _ in range(int(rng.integers(2, 8))):
        src = oplists[int(rng.integers(len(oplists)))]
        k = PERTS[int(rng.integers(len(PERTS) - 1))]
        o = perturb(rng, src, regs_by_type, k) or copy.deepcopy(src)
        oplists.append(o)
    circs = [build(n_e, n_p, n_c, o)[1] for o in oplists]
    orc = Oracle(rng, n_e, n_p, n_c)
    case = {"kind": "list", "seed": seedt, "registers": [n_e, n_p, n_c], "circuits": [_txt(o) for o in oplists]}
    ctx.case(("list", tuple(tuple(_txt(o)) for o in oplists)), True, {"circuits": [_txt(o) for o in oplists]} if ctx.evaluations % 30 == 0 else None)
    # remove_redundant_circuits (isomorphism on unwrapped copies)
    ctx.count("lists:remove_redundant")
    try:
        kept = remove_redundant_circuits(list(circs))
        kept_idx = [i for i, c in enumerate(circs) if any(c is k for k in kept)]
        if len(kept_idx) != len(kept):
            ctx.violation("remove_redundant_returns_foreign_circuits", case, {}, key="dedup_foreign")
        for i in range(len(circs)):
            if i in kept_idx:
                continue
            ctx.count("lists:dropped")
            if not any(orc.equivalent_up_to_renaming(oplists[i], oplists[k]) for k in kept_idx):
                ctx.violation("distinct_circuit_discarded", case, {"by": "remove_redundant_circuits", "dropped": i, "kept": kept_idx}, key="dedup_drop:remove_redundant")
                break
    except Exception as e:
        ctx.violation("remove_redundant_circuits_raises", case, {"exception": f"{type(e).__name__}: {e}"[:300]}, key="dedup_exc")
    # CircuitStorage: default check (direct comparison on unwrapped copies), the isomorphism check, and comparison disabled
    from graphiq.utils.circuit_comparison import circuit_is_isomorphic
    ctx.count("lists:storage")
    try:
        for config, kw in (("default", {}), ("isomorphic", {"check_function": circuit_is_isomorphic}), ("disabled", {"disable_circuit_comparison": True})):
            st = CircuitStorage(**kw)
            stored = []
            ctx.count("lists:storage_config:" + config)
            for i, c in enumerate(circs):
                if st.add_new_circuit(c):
                    stored.append(i)
                else:
                    ctx.count("lists:dropped")
                    same = orc.equivalent_up_to_renaming if config == "isomorphic" else orc.equivalent   # the isomorphism check identifies circuits up to a renaming of same-type registers
                    if config == "disabled" or not any(same(oplists[i], oplists[k]) for k in stored):
                        ctx.violation("distinct_circuit_discarded", case, {"by": f"CircuitStorage({config})", "refused": i, "stored": stored}, key="dedup_drop:storage:" + config)
                        break
            if [id(c) for c in st.circuit_list] != [id(circs[i]) for i in stored]:
                ctx.violation("storage_list_inconsistent", case, {"config": config}, key="dedup_storage_list")
            if config != "disabled" and stored and (n_e + n_p) >= 1:
                # history on the storage: a kept circuit is edited in place by its owner (one more gate at the end), then a
                # fresh circuit equal to its OLD version is offered. It may only be refused if it is equivalent to a circuit
                # that is kept NOW (the edited one counts with its new operations).
                j = stored[int(rng.integers(len(stored)))]
                reg = ("e", int(rng.integers(n_e))) if n_e and (not n_p or rng.random() < 0.5) else ("p", int(rng.integers(n_p)))
                d = {"kind": ["X", "H", "Z", "P"][int(rng.integers(4))], "q": [reg]}
                if d["kind"] not in ONEQ:
                    d["kind"] = sorted(ONEQ)[0]
                old_ops = copy.deepcopy(oplists[j])
                tmp = Program(n_e, n_p, n_c)
                o_ = tmp.new_op(d["kind"], [tuple(x) for x in d["q"]], None, None)
                circs[j].add(make_gq_op(o_))
                oplists[j] = old_ops + [d]
                cand = build(n_e, n_p, n_c, old_ops)[1]
                ctx.count("lists:storage_offer_after_inplace_edit")
                same = orc.equivalent_up_to_renaming if config == "isomorphic" else orc.equivalent
                if not st.add_new_circuit(cand):
                    ctx.count("lists:dropped")
                    if not any(same(old_ops, oplists[k]) for k in stored):
                        ctx.violation("distinct_circuit_discarded", {**case, "circuits": [_txt(o) for o in oplists]},
                                      {"by": f"CircuitStorage({config}) after a kept circuit was edited in place", "edited": j, "appended": _txt([d]),
                                       "offered": _txt(old_ops), "stored": stored}, key="dedup_drop:storage_after_edit:" + config)
                elif any(same(old_ops, oplists[k]) for k in stored):
                    ctx.count("lists:storage_kept_an_equivalent_after_edit")   # sound but not complete: not a violation
    except Exception as e:
        ctx.violation("CircuitStorage_raises", case, {"exception": f"{type(e).__name__}: {e}"[:300]}, key="dedup_exc:storage")
