"""C01 - both simulation backends compute the state the circuit defines.
Lock-step compile monitor (vlib.mon.compile) + tableau monitor (vlib.mon.tableau) under generated programs built through
add / insert_at, both backends, measurement settings {0, 1, probabilistic}, optional stabilizer initial state."""
import numpy as np

from ..gen import programs
from ..mon.compile import CompileMonitor, judge
from ..mon.tableau import TableauMonitor
from ..ref import pauli, dense
from .. import gq

from .. import suite

ID = "C01"
LEVEL = "exploration"
RULE = ("random programs over {I,H,P,Pdag,X,Y,Z,wrappers of 1-4 gates,CNOT,CZ,classical CNOT/CZ,Z-measure,measure-CNOT-and-reset} on "
        "0-3 emitters, 0-3 photons (1..5 qubits, thorough ..6), 0-3 classical registers, length 0..30 (thorough ..60), built by a random "
        "interleaving of add() and insert_at() on compatible edges, with gates forced after measure-and-reset; each compiled by both "
        "backends under forced 0, forced 1 and probabilistic outcomes (several seeds), 25% from a random stabilizer initial state. One "
        "evaluation = one compile run; distinct = distinct (program, backend, setting, seed, initial state) digest; non-trivial = the "
        "program contains at least one two-qubit or measuring operation")
ASSUMPTIONS = ["reference semantics vlib.ref.circsim (dense n<=7 and stabilizer group), conventions exactly as stated in C01",
               "probabilistic mode is judged conditioned on the outcomes actually drawn (each must have non-zero reference probability)",
               "tolerance 1e-8 on density-matrix entries; stabilizer comparisons exact"]
TIMEOUT = {"quick": 900, "thorough": 7200}


def shards(tier, seed):
    return _own_shards(tier, seed) + suite.shards(tier, seed)


def _own_shards(tier, seed):
    n = 16 if tier == "quick" else 48
    return [{"seed": seed, "shard": i, "programs": 45 if tier == "quick" else 700, "nmax": 5 if tier == "quick" else 6,
             "lmax": 30 if tier == "quick" else 60} for i in range(n)]


def floors(tier):
    f = _own_floors(tier)
    f.update({"suite:tests_run": 40, "suite:compile:runs_judged": 10})
    return f


def _own_floors(tier):
    return {"compile:runs": 3000, "compile:ops_observed": 20000, "backend:StabilizerCompiler": 1000, "backend:DensityMatrixCompiler": 1000,
            "measure:random": 100, "measure:deterministic": 100, "outcome:0": 100, "outcome:1": 100, "shape:gate_after_reset": 20,
            "setting:0": 500, "setting:1": 500, "setting:probabilistic": 500, "initial_state:given": 200, "programs:with_insert_at": 100,
            "kind:MR": 100, "kind:MZ": 100, "kind:cCNOT": 50, "kind:cCZ": 50, "kind:W": 200, "kind:CZ": 100, "programs:one_qubit": 5, "programs:large_n": 30,
            "programs:with_noise_annotations": 150, "compile:noise_simulation_on_without_noise": 300, "programs:wrapper_with_one_noise_object": 40}


def gen_program(rng, nmax, lmax):
    if rng.random() < 0.12:
        # large registers, long programs: stabilizer backend only, judged by stabilizer-group equality
        n_e, n_p = int(rng.integers(2, 7)), int(rng.integers(4, 9))
        if rng.random() < 0.4:
            n_e, n_p = [(int(rng.integers(11, 13)), int(rng.integers(1, 4))), (int(rng.integers(1, 4)), int(rng.integers(11, 14)))][int(rng.integers(2))]   # two-digit register indices
        return programs.random_program(rng, n_e, n_p, int(rng.integers(1, 4)), int(rng.integers(40, 3 * lmax + 1)), annotate_noise=0.1)
    while True:
        n_e, n_p = int(rng.integers(0, 4)), int(rng.integers(0, 4))
        if 1 <= n_e + n_p <= nmax:
            break
    n_c = int(rng.integers(0, 4))
    L = int(rng.integers(0, lmax + 1)) if rng.random() < 0.9 else 0
    return programs.random_program(rng, n_e, n_p, n_c, L, grow_registers=(n_e + n_p <= nmax - 1), annotate_noise=[0.0, 0.25][int(rng.integers(2))])


def run_shard(spec, ctx):
    if spec.get("kind") == "suite":
        suite.run(ctx, "compile", suite.GROUPS[spec["group"]])
        return
    _own_run_shard(spec, ctx)


def _own_run_shard(spec, ctx):
    mon = CompileMonitor(ctx.count)
    mon.install()
    state = {"case": None}

    def report(kind, detail):
        ctx.violation("tableau:" + kind, dict(state["case"] or {}), detail, key=f"tableau:{kind}:{detail.get('function')}")
    tmon = TableauMonitor(report, None)
    tmon.install()
    for i in range(spec["programs"]):
        pseed = [spec["seed"], 1, spec["shard"], i]
        run_program(pseed, spec["nmax"], spec["lmax"], ctx, mon, state)


def replay(case, ctx):
    if "suite_test" in case:
        suite.replay(case, ctx)
        return
    _own_replay(case, ctx)


def _own_replay(case, ctx):
    mon = CompileMonitor(ctx.count)
    mon.install()
    state = {"case": None}
    tmon = TableauMonitor(lambda k, d: ctx.violation("tableau:" + k, dict(state["case"] or {}), d, key=f"tableau:{k}:{d.get('function')}"), None)
    tmon.install()
    run_program(case["pseed"], case["nmax"], case["lmax"], ctx, mon, state, only=case.get("config"))


def run_program(pseed, nmax, lmax, ctx, mon, state, only=None):
    m = gq.mods()
    rng = np.random.default_rng(pseed)
    prog, circ = gen_program(rng, nmax, lmax)
    kinds = [o.kind for o in prog.ops]
    nontrivial = any(k in ("CNOT", "CZ", "cCNOT", "cCZ", "MZ", "MR") for k in kinds)
    for k in set(kinds):
        ctx.count("kind:" + k, kinds.count(k))
    if any(o.how == "insert" for o in prog.ops):
        ctx.count("programs:with_insert_at")
    if prog.n_q == 1:
        ctx.count("programs:one_qubit")
    if any(o.noise is not None for o in prog.ops):
        ctx.count("programs:with_noise_annotations")
    if any(isinstance(o.noise, tuple) and o.noise[0] == "single" and len(o.gates) >= 2 for o in prog.ops):
        ctx.count("programs:wrapper_with_one_noise_object")
    # gate after measure-and-reset on the same wire
    for w, ids in prog.wires.items():
        if w[0] in "ep":
            for a, b in zip(ids, ids[1:]):
                if prog.ops[a].kind == "MR" and prog.ops[a].q[0] == w:
                    ctx.count("shape:gate_after_reset")
    n = prog.n_q
    configs = []
    for backend in ("StabilizerCompiler", "DensityMatrixCompiler"):
        if backend == "DensityMatrixCompiler" and n > 7:
            continue
        for det in (0, 1, "probabilistic", "probabilistic"):
            configs.append((backend, det))
    if n > 7:
        ctx.count("programs:large_n")
    use_init = rng.random() < 0.25
    init_group = pauli.random_stabilizer_group(rng, n) if use_init else None
    noise_flag = (not use_init) and not any(o.noise is not None for o in prog.ops) and (pseed[-1] % 3 == 0)
    for ci, (backend, det) in enumerate(configs):
        if only is not None and ci != only:
            continue
        cseed = int(rng.integers(2 ** 31)) if only is None else None
        if only is not None:
            # regenerate the same seed stream
            rr = np.random.default_rng(pseed + [7])
            cseed = [int(rr.integers(2 ** 31)) for _ in range(len(configs))][ci]
        else:
            rr = np.random.default_rng(pseed + [7])
            cseed = [int(rr.integers(2 ** 31)) for _ in range(len(configs))][ci]
        case = {"pseed": pseed, "nmax": nmax, "lmax": lmax, "config": ci, "backend": backend, "setting": det,
                "program": prog.text(), "registers": [prog.n_e, prog.n_p, prog.n_c], "initial_state": None if init_group is None else init_group.labels()}
        state["case"] = case
        comp = m[backend]()
        comp.measurement_determinism = det
        if noise_flag:
            # noise simulation switched on for a circuit that carries no noise: other code paths (the stabilizer backend then
            # holds a one-component mixture), same state, same respect for the forced outcome
            comp.noise_simulation = True
            ctx.count("compile:noise_simulation_on_without_noise")
            case["noise_simulation"] = True
        np.random.seed(cseed)
        initial = None
        init_ref = None
        if init_group is not None:
            ctx.count("initial_state:given")
            if backend == "StabilizerCompiler":
                initial = m["QuantumState"](gq.ptab_to_clifford(init_group, np.random.default_rng(cseed), random_destab_phase=True), rep_type="s")
            else:
                initial = m["QuantumState"](dense.projector_of_group(init_group), rep_type="dm")
            init_ref = {"rho": dense.projector_of_group(init_group) if n <= 7 else None, "group": init_group}
        ctx.count("compile:runs")
        ctx.count("backend:" + backend)
        ctx.count("setting:" + str(det))
        ctx.case((tuple(prog.text()), backend, str(det), cseed, None if init_group is None else tuple(init_group.labels())), nontrivial,
                 {"registers(e,p,c)": [prog.n_e, prog.n_p, prog.n_c], "program": prog.text(), "backend": backend, "setting": det}
                 if ctx.evaluations % 400 == 0 else None)
        mon.pop_runs()
        try:
            comp.compile(circ, initial) if initial is not None else comp.compile(circ)
        except Exception as e:
            pass  # observed by the monitor (run.raised)
        runs = mon.pop_runs()
        if len(runs) != 1:
            ctx.violation("monitor_saw_no_compile", case, {"runs": len(runs)}, key="no_run")
            continue
        run = runs[0]
        for kind, detail in judge(prog, run, init_ref):
            op = detail.get("op", "")
            opk = op.split()[0].split("[")[0] if op else ""
            ctx.violation(kind, case, detail, key=f"{kind}:{backend}:{opk}")
        for ev in run.events:
            m_ = ev.get("_m")
            if m_ is not None:
                ctx.count("outcome:" + str(m_))
                ctx.count("measure:random" if 1e-9 < ev["_p"][m_] < 1 - 1e-9 else "measure:deterministic")
        # random vs deterministic measurements as seen by the reference
        ref = getattr(run, "ref", None)
    # measurement statistics from the tableau monitor counters are reported under tableau:* ; add reference-side split
    return


def _count_measure_kinds(ctx, run):
    pass
