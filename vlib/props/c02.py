"""C02 - the time-reversed solver returns a circuit that generates the target exactly.
Boundary monitor on TimeReversedSolver.solve + (vlib.mon.generates) all-branch reference enumeration of the returned
circuit and lock-step monitored compiles on both backends; tableau monitor and DAG monitor are active while solve() runs."""
import json
import os
import traceback
import numpy as np

from ..mon.compile import CompileMonitor
from ..mon.tableau import TableauMonitor
from ..mon.dag import DagMonitor
from ..mon import generates
from ..mon.trs_paths import PathProbe
from ..ref import graphs, pauli, dense
from .. import gq, boot

ID = "C02"
LEVEL = "exploration"
RULE = ("target graph states: all labelled graphs on <= 4 vertices in every run, all on 5 vertices (thorough), random graphs on 6..8 "
        "(dense judge up to 7 qubits in total, stabilizer-group judge above) and 9..14 vertices (group judge), trees / cycles / complete / "
        "repeater / lattice graphs, permuted vertex orders, connected and not; each presented as graph, stabilizer (random generating "
        "set) or density-matrix QuantumState. distinct = distinct (graph, presentation) digest; non-trivial = the graph has an edge")
ASSUMPTIONS = ["all 2^m outcome branches of the returned circuit are enumerated by the reference alone (up to 64 branches; above, the "
               "first 64 in depth-first order)", "graph state |G> = prod CZ |+>^n with qubit i = i-th vertex"]
EXHAUSTIVE_SUBSPACES = {"quick": ["all labelled graphs on <= 4 vertices"], "thorough": ["all labelled graphs on <= 5 vertices"]}
TIMEOUT = {"quick": 900, "thorough": 7200}


def shards(tier, seed):
    out = []
    nparts = 8
    for i in range(nparts):
        out.append({"kind": "all", "nmax": 4 if tier == "quick" else 5, "part": i, "nparts": nparts, "seed": seed, "shard": i})
    for i in range(8 if tier == "quick" else 16):
        out.append({"kind": "random", "count": 24 if tier == "quick" else 300, "seed": seed, "shard": i})
    for i in range(8 if tier == "quick" else 16):
        out.append({"kind": "dip", "count": 45 if tier == "quick" else 400, "seed": seed, "shard": i})
    for i in range(6):
        out.append({"kind": "corpus", "part": i, "nparts": 6, "seed": seed, "shard": i})
    if tier == "thorough":
        for i in range(64):
            out.append({"kind": "all6", "part": i, "nparts": 64, "seed": seed, "shard": i})
    return out


def floors(tier):
    return {"solver:runs": 120, "solver:returned": 80, "presentation:g": 30, "presentation:s": 30, "presentation:dm": 20,
            "circuits:with_reset_then_emission": 10, "generates:branches": 200, "generates:compiles": 400, "score:checked": 80,
            "targets:n>=9": 5 if tier == "quick" else 100, "targets:profile_dip_with_two_emitters": 200,
            "targets:from_path_corpus": 60, "set:trs_path_signatures": 25, "trs_path:multi_emitter_generator": 30}


def lattice(r, c):
    n = r * c
    A = np.zeros((n, n), dtype=int)
    for i in range(r):
        for j in range(c):
            k = i * c + j
            if j + 1 < c:
                A[k, k + 1] = A[k + 1, k] = 1
            if i + 1 < r:
                A[k, k + c] = A[k + c, k] = 1
    return A


def run_shard(spec, ctx):
    m = gq.mods()
    state = {"case": None}
    mon = CompileMonitor(None, snapshots=True)
    mon.install()

    def rep_t(kind, detail):
        ctx.violation("tableau:" + kind, dict(state["case"] or {}), detail, key=f"tableau:{kind}:{detail.get('function')}")

    def rep_d(kind, detail):
        ctx.violation("dag:" + kind, dict(state["case"] or {}), detail, key=f"dag:{kind}")
    TableauMonitor(rep_t, ctx.count).install()
    DagMonitor(rep_d, ctx.count).install()
    paths = PathProbe(ctx.count).install()
    state["paths"] = paths
    rng = np.random.default_rng([spec["seed"], 2, spec["shard"], 0 if spec["kind"] == "all" else 1])
    if spec["kind"] == "dip":
        # many targets whose entanglement profile drops while two or more emitters are in use (selected with the oracle):
        # the time-reversed measurement has to single one emitter out of a multi-emitter generator. Judged by the
        # all-branch reference enumeration and the stabilizer backend.
        rng = np.random.default_rng([spec["seed"], 2, spec["shard"], 5])
        done = 0
        while done < spec["count"]:
            n = int(rng.integers(6, 9))
            C = graphs.random_connected_graph(rng, n, [0.25, 0.4, 0.55][int(rng.integers(3))])
            prof = graphs.cut_rank_profile(C)
            if any(prof[j] < prof[j - 1] and prof[j - 1] >= 2 for j in range(1, n - 1)) and max(prof) <= 3:
                ctx.count("targets:profile_dip_with_two_emitters")
                solve_and_check(C, "g", rng, ctx, m, mon, state, light=True)
                done += 1
        return
    if spec["kind"] == "corpus":
        # one target (up to three) for every path signature of the time-reversed measurement known on the pinned tree
        with open(os.path.join(boot.VERIF, "corpus", "c02_trs_paths.json")) as f:
            sigs = json.load(f)["signatures"]
        j = 0
        for sig in sorted(sigs):
            for adj in sigs[sig]:
                if j % spec["nparts"] == spec["part"]:
                    ctx.count("targets:from_path_corpus")
                    solve_and_check(np.array(adj), "g", rng, ctx, m, mon, state, light=True)
                j += 1
        return
    if spec["kind"] == "all6":
        j = 0
        for code in range(1 << 15):
            A6 = graphs.code_to_adj(code, 6)
            if graphs.components(A6)[0] != 1:
                continue
            if j % spec["nparts"] == spec["part"]:
                solve_and_check(A6, "g", rng, ctx, m, mon, state, light=True)
            j += 1
        return
    if spec["kind"] == "all":
        j = 0
        for n in range(1, spec["nmax"] + 1):
            for code in range(1 << (n * (n - 1) // 2)):
                if j % spec["nparts"] == spec["part"]:
                    solve_and_check(graphs.code_to_adj(code, n), ["g", "s", "dm"][j % 3] if n <= 4 else ["g", "s"][j % 2], rng, ctx, m, mon, state)
                j += 1
    else:
        from .c16 import repeater_graph
        for i in range(spec["count"]):
            fam = i % 8
            if fam == 0:
                A = graphs.random_connected_graph(rng, int(rng.integers(5, 9)), [0.15, 0.3, 0.5][i % 3])
            elif fam == 1:
                A = graphs.random_graph(rng, int(rng.integers(5, 8)), 0.4)
            elif fam == 2:
                A = graphs.random_connected_graph(rng, int(rng.integers(9, 15)), 0.2)
            elif fam == 3:
                A = list(graphs.named_graphs(int(rng.integers(3, 9))).values())[int(rng.integers(4))]
            elif fam == 4:
                A = repeater_graph(int(rng.integers(2, 5)))
            elif fam == 5:
                A = lattice(2, int(rng.integers(2, 5)))
            elif fam == 6:  # tree
                n = int(rng.integers(4, 10))
                A = np.zeros((n, n), dtype=int)
                for k in range(1, n):
                    j = int(rng.integers(k))
                    A[k, j] = A[j, k] = 1
            else:
                A = graphs.random_connected_graph(rng, int(rng.integers(4, 8)), 0.6)
            if i % 8 in (0, 7):
                # targets whose entanglement profile drops while two or more emitters are in use: the time-reversed
                # measurement then has to single one emitter out of a multi-emitter generator (selected with the oracle)
                for _ in range(300):
                    n = int(rng.integers(6, 9))
                    C = graphs.random_connected_graph(rng, n, [0.25, 0.4, 0.55][int(rng.integers(3))])
                    prof = graphs.cut_rank_profile(C)
                    if any(prof[j] < prof[j - 1] and prof[j - 1] >= 2 for j in range(1, n - 1)) and max(prof) <= 3:
                        A = C
                        ctx.count("targets:profile_dip_with_two_emitters")
                        break
            elif i % 3 == 1:
                # disjoint union of connected pieces: the entanglement profile drops to 0 between them, so an emitter is
                # measured, reset and used again
                parts = [graphs.random_connected_graph(rng, int(rng.integers(2, 4)), 0.5) for _ in range(int(rng.integers(2, 4)))]
                n = sum(p.shape[0] for p in parts)
                A = np.zeros((n, n), dtype=int)
                o = 0
                for p in parts:
                    A[o:o + p.shape[0], o:o + p.shape[0]] = p
                    o += p.shape[0]
            if i % 2:
                A = graphs.relabel(A, [int(v) for v in rng.permutation(A.shape[0])])
            rep = ["g", "s", "dm"][int(rng.integers(3))] if A.shape[0] <= 6 else ["g", "s"][int(rng.integers(2))]
            solve_and_check(A, rep, rng, ctx, m, mon, state)


def replay(case, ctx):
    m = gq.mods()
    mon = CompileMonitor(None, snapshots=True)
    mon.install()
    state = {"case": None}
    TableauMonitor(lambda k, d: ctx.violation("tableau:" + k, dict(state["case"] or {}), d, key=f"tableau:{k}:{d.get('function')}"), None).install()
    DagMonitor(lambda k, d: ctx.violation("dag:" + k, dict(state["case"] or {}), d, key=f"dag:{k}"), None).install()
    solve_and_check(np.array(case["adj"]), case["presentation"], np.random.default_rng(case.get("rseed", 0)), ctx, m, mon, state, rseed=case.get("rseed"),
                    light=case.get("light", False))


def make_target(A, rep, rng, m):
    g = gq.nx_from_adj(A)
    if rep == "g":
        if rng.random() < 0.4 and A.shape[0] >= 2:
            # node labels inserted in a permuted order: qubit i is the i-th inserted node, A is the adjacency in that order
            g = gq.nx_from_adj(A, [int(v) for v in rng.permutation(A.shape[0])])
        return m["QuantumState"](g, rep_type="g")
    if rep == "dm":
        return m["QuantumState"](dense.ket2dm(dense.graph_state_vec(A)), rep_type="dm")
    X, Z, K = graphs.graph_stabilizers(A)
    t = pauli.PTab(X, Z, K)
    if A.shape[0] >= 2:
        t = pauli.scramble_generators(rng, t)
    return m["QuantumState"](gq.ptab_to_clifford(t, rng), rep_type="s")


def solve_and_check(A, rep, rng, ctx, m, mon, state, rseed=None, light=False):
    from graphiq.solvers.time_reversed_solver import TimeReversedSolver
    from graphiq.metrics import Infidelity
    import graphiq.circuit.ops as ops
    n = A.shape[0]
    if rseed is None:
        rseed = int(rng.integers(2 ** 31))
    r2 = np.random.default_rng(rseed)
    case = {"adj": A.tolist(), "presentation": rep, "rseed": rseed, "light": light}
    state["case"] = case
    isolated = bool((A.sum(axis=0) == 0).any())
    ctx.case((A.tobytes(), rep), bool(A.any()), {"target_adjacency": A.tolist(), "presentation": rep} if ctx.evaluations % 60 == 0 else None)
    ctx.count("solver:runs")
    ctx.count("presentation:" + rep)
    if n >= 9:
        ctx.count("targets:n>=9")
    X, Z, K = graphs.graph_stabilizers(A)
    target_group = pauli.PTab(X, Z, K)
    backend = ["StabilizerCompiler", "DensityMatrixCompiler"][int(r2.integers(2))] if (n <= 4 and rep != "s") else "StabilizerCompiler"
    try:
        target = make_target(A, rep, r2, m)
        comp = m[backend]()
        comp.measurement_determinism = [0, 1][int(r2.integers(2))]
        solver = TimeReversedSolver(target=target, metric=Infidelity(target=target), compiler=comp)
        mon.pop_runs()
        solver.solve()
        score, circ = solver.result
    except Exception as e:
        tb = traceback.extract_tb(e.__traceback__)
        where = tb[-1].name if tb else "?"
        key = "trs-isolated-vertex" if (isolated and isinstance(e, IndexError) and where == "_add_photon_absorption") else f"solver_exc:{type(e).__name__}:{where}"
        ctx.violation("solver_raises", case, {"exception": f"{type(e).__name__}: {e}"[:300], "raised_in": where, "backend": backend,
                                              "target_has_isolated_vertex": isolated}, key=key)
        return
    mon.pop_runs()
    ctx.count("solver:returned")
    if state.get("paths") is not None:
        for sig in state["paths"].take():
            ctx.seen("trs_path_signatures", sig)
    # emission after a measure-and-reset on the same emitter?
    seen_mr = set()
    for op in circ.sequence(unwrapped=True):
        if type(op) is ops.MeasurementCNOTandReset:
            seen_mr.add(op.control)
        elif type(op) is ops.CNOT and op.control_type == "e" and op.target_type == "p" and op.control in seen_mr:
            ctx.count("circuits:with_reset_then_emission")
            break
    viol = generates.check(circ, target_group, m, mon, np_seed=rseed, count=ctx.count,
                           backends=("StabilizerCompiler",) if light else ("StabilizerCompiler", "DensityMatrixCompiler"))
    for kind, detail in viol:
        ctx.violation(kind, case, detail, key=f"{kind}:{detail.get('backend', '')}")
    ctx.count("score:checked")
    if not viol and abs(float(score)) > 1e-9:
        ctx.violation("reported_score_is_not_the_true_infidelity", case, {"score": float(score), "true_infidelity": 0.0, "backend": backend}, key="score_wrong")
    if viol and abs(float(score)) < 1e-9:
        ctx.violation("score_zero_although_circuit_is_wrong", case, {"score": float(score)}, key="score_zero_but_wrong")
