"""C16 - relabelling, isomorph search and LC-orbit walks stay in the equivalence class.
Boundary monitors on relabel, get_relabel_map, iso_finder, emitter ordering, lc_orbit_finder, rgs_orbit_finder,
linear_partial_orbit, depth_first_orbit; probe on local_comp_graph (records every complementation actually applied, so
that orbit membership can be decided for graphs too large for exhaustive orbits)."""
import itertools
import math
import warnings
import numpy as np

from ..ref import graphs
from .. import gq, probes

ID = "C16"
LEVEL = "exploration"
RULE = ("graphs on 2..9 vertices (random G(n,p), trees, cycles, stars, complete, paths, repeater graphs, disconnected) x random "
        "permutations for relabel / get_relabel_map; x (n_iso <= n!, rel_inc_thresh, allow_exhaustive, sort_emit, label_map, "
        "thresh, seed) for iso_finder; x (comp_depth, orbit_size_thresh, with_iso, rand, rep_allowed) for lc_orbit_finder and the "
        "scripted explorers on their graph families. distinct = distinct (function, graph, arguments) digest; non-trivial = the "
        "graph has at least one edge and is not complete")
ASSUMPTIONS = ["isomorphism decided by brute force for n<=7 and by networkx VF2 above", "LC-orbit membership: exhaustive orbit for "
               "n<=6, otherwise the chain of complementations observed by the probe on local_comp_graph, each step checked against "
               "vlib.ref.graphs.local_complement"]


def shards(tier, seed):
    out = []
    m = 1 if tier == "quick" else 12
    for i in range(4):
        out.append({"kind": "relabel", "count": 300 * m, "seed": seed, "shard": i})
    for i in range(6):
        out.append({"kind": "iso", "count": 60 * m, "seed": seed, "shard": i})
    for i in range(6):
        out.append({"kind": "orbit", "count": 40 * m, "seed": seed, "shard": i})
    return out


def floors(tier):
    return {"relabel:calls": 1000, "relabel_map:calls": 500, "iso_finder:calls": 300, "iso_finder:sort_emit": 50,
            "iso_finder:label_map": 50, "iso_finder:n>=8": 20, "iso_finder:n>=10": 15, "iso_finder:label_map_and_sort_emit": 40, "orbit:lc_orbit_finder": 100, "orbit:rgs": 10, "orbit:linear": 10, "orbit:scripted_walk_distinctness_checked": 20, "orbit:returned_graph_edited_and_explored": 15, "orbit:linear_even_length_repeated": 2,
            "orbit:depth_first": 20, "orbit:graphs_checked": 1000, "lcomp_probe:steps": 1000, "relabel_map:permuted_insertion_order": 1000}


def isomorphic(A, B):
    n = A.shape[0]
    if n <= 7:
        return graphs.isomorphic_bruteforce(A, B)
    import networkx as nx
    return nx.is_isomorphic(gq.nx_from_adj(A), gq.nx_from_adj(B))


def rand_graph(rng, n, i):
    fam = i % 6
    if fam == 0:
        return graphs.random_graph(rng, n, 0.3)
    if fam == 1:
        return graphs.random_connected_graph(rng, n, 0.2)
    if fam == 2:
        A = list(graphs.named_graphs(n).values())[int(rng.integers(4))]
        return graphs.relabel(A, [int(v) for v in rng.permutation(n)])
    if fam == 3:
        return graphs.random_graph(rng, n, 0.7)
    if fam == 4:  # tree
        A = np.zeros((n, n), dtype=int)
        for k in range(1, n):
            j = int(rng.integers(k))
            A[k, j] = A[j, k] = 1
        return A
    return graphs.random_connected_graph(rng, n, 0.5)


class LCProbe:
    """records local_comp_graph calls; `known` = codes proven to be in the orbit of the start graph"""

    def __init__(self, ctx):
        import graphiq.backends.lc_equivalence_check as lc
        self.ctx = ctx
        self.known = set()
        self.n = 0
        self.bad = []
        self.stack = []
        probes.hook(lc.local_comp_graph, self.start, self.ret)

    def reset(self, A):
        self.n = A.shape[0]
        self.known = {A.astype(int).tobytes()}
        self.bad = []

    def start(self, frame):
        g = frame.f_locals.get("input_graph")
        v = frame.f_locals.get("node_id")
        try:
            self.stack.append((gq.adj_from_nx(g), int(v)))
        except Exception:
            self.stack.append(None)

    def ret(self, frame, ret):
        ent = self.stack.pop() if self.stack else None
        if ent is None:
            return
        A, v = ent
        self.ctx.count("lcomp_probe:steps")
        got = gq.adj_from_nx(ret)
        ref = graphs.local_complement(A, v)
        if not np.array_equal(got, ref):
            self.bad.append({"graph": A.tolist(), "vertex": v, "got": got.tolist()})
        elif A.astype(int).tobytes() in self.known:
            self.known.add(ref.astype(int).tobytes())


def run_shard(spec, ctx):
    rng = np.random.default_rng([spec["seed"], sum(map(ord, spec["kind"])), spec["shard"]])
    {"relabel": run_relabel, "iso": run_iso, "orbit": run_orbit}[spec["kind"]](spec, ctx, rng)


def replay(case, ctx):
    rng = np.random.default_rng(0)
    if case["kind"] == "relabel":
        check_relabel(np.array(case["A"]), case["perm"], ctx)
    elif case["kind"] == "iso":
        check_iso(np.array(case["A"]), case["kw"], ctx)
    elif case["kind"] == "orbit":
        probe = LCProbe(ctx)
        import graphiq.utils.relabel_module as rm
        for meth, n_ in case.get("earlier_scripted_calls", []):      # the scripted walks this process had done before
            try:
                g0 = graphs.named_graphs(n_)["path"] if meth == "linear_partial_orbit" else repeater_graph(n_ // 2)
                getattr(rm, meth)(gq.nx_from_adj(g0))
            except Exception:
                pass
        if "parent" in case:
            case = case["parent"]
        check_orbit(np.array(case["A"]), case["method"], case["kw"], case.get("npseed", 0), ctx, probe)


# ------------------------------------------------------------------------------------------------ relabel
def run_relabel(spec, ctx, rng):
    for i in range(spec["count"]):
        n = int(rng.integers(2, 10))
        A = rand_graph(rng, n, i)
        check_relabel(A, [int(v) for v in rng.permutation(n)], ctx)


def check_relabel(A, perm, ctx):
    from graphiq.utils.relabel_module import relabel, get_relabel_map
    n = A.shape[0]
    case = {"kind": "relabel", "A": A.tolist(), "perm": perm}
    ctx.case(("relabel", A.tobytes(), tuple(perm)), bool(A.any() and A.sum() < n * (n - 1)),
             {"A": A.tolist(), "perm": perm} if ctx.evaluations % 500 == 0 else None)
    ctx.count("relabel:calls")
    ref = graphs.relabel(A, perm)
    try:
        B = np.array(relabel(A.copy(), np.array(perm)))
    except Exception as e:
        ctx.violation("relabel_raises", case, {"exception": f"{type(e).__name__}: {e}"[:300]}, key="relabel_exc")
        return
    if not np.array_equal(B, ref):
        ctx.violation("relabel_wrong", case, {"got": B.tolist(), "expected": ref.tolist()}, key="relabel_wrong")
        return
    ctx.count("relabel_map:calls")
    # graphs whose node labels were inserted in another order than 0..n-1: the positional adjacency matrices may coincide
    # although the labelled graphs differ (or the other way round); the map must be an isomorphism of the labelled graphs
    import random as _r
    rr = _r.Random(int(A.sum()) * 7919 + sum(perm[:3]))
    o1 = list(range(n)); rr.shuffle(o1)
    o2 = list(range(n)); rr.shuffle(o2)
    for g1, g2 in ((gq.nx_from_adj(A, o1), gq.nx_from_adj(A, o2)), (gq.nx_from_adj(A, o1), gq.nx_from_adj(A)), (gq.nx_from_adj(A), gq.nx_from_adj(B, o2))):
        ctx.count("relabel_map:permuted_insertion_order")
        try:
            m = dict(get_relabel_map(g1, g2))
        except Exception as e:
            ctx.violation("get_relabel_map_raises", case, {"exception": f"{type(e).__name__}: {e}"[:300], "nodes1": list(g1.nodes), "nodes2": list(g2.nodes)}, key="relabel_map_exc")
            continue
        m.pop(-1, None)
        ok = sorted(m.keys()) == sorted(g1.nodes) and sorted(m.values()) == sorted(g2.nodes) and \
            all(g1.has_edge(u, v) == g2.has_edge(m[u], m[v]) for u in g1.nodes for v in g1.nodes if u != v)
        if not ok:
            ctx.violation("relabel_map_not_an_isomorphism", case, {"map": {int(k): int(v) for k, v in m.items()}, "nodes1": list(g1.nodes), "nodes2": list(g2.nodes),
                                                                   "edges1": sorted(map(sorted, g1.edges)), "edges2": sorted(map(sorted, g2.edges))}, key="relabel_map_wrong")
    for a1, a2 in ((A, B), (gq.nx_from_adj(A), gq.nx_from_adj(B)), (A, A.copy())):
        try:
            m = dict(get_relabel_map(a1, a2))
        except Exception as e:
            ctx.violation("get_relabel_map_raises", case, {"exception": f"{type(e).__name__}: {e}"[:300]}, key="relabel_map_exc")
            continue
        m.pop(-1, None)
        M1 = a1 if isinstance(a1, np.ndarray) else gq.adj_from_nx(a1)
        M2 = a2 if isinstance(a2, np.ndarray) else gq.adj_from_nx(a2)
        ok = sorted(m.keys()) == list(range(n)) and sorted(m.values()) == list(range(n))
        if ok:
            ok = all(M1[u, v] == M2[m[u], m[v]] for u in range(n) for v in range(n))
        if not ok:
            ctx.violation("relabel_map_not_an_isomorphism", case, {"map": {int(k): int(v) for k, v in m.items()}}, key="relabel_map_wrong")


# ------------------------------------------------------------------------------------------------ iso_finder
def run_iso(spec, ctx, rng):
    for i in range(spec["count"]):
        n = [3, 4, 5, 6, 7, 8, 9][i % 7] if i % 5 else int(rng.integers(2, 6))
        if i % 9 == 4:
            n = int(rng.integers(10, 19))       # n(n-1)/2 passes 32 and 64: where a packed integer key of the graph would wrap
            ctx.count("iso_finder:n>=10")
        A = rand_graph(rng, n, i // 2)
        nmax = math.factorial(n)
        kw = {"n_iso": int(min(nmax, [1, 2, 3, 5, 8, 13, 24, 40][int(rng.integers(8))])),
              "rel_inc_thresh": [0.2, 0.05, 0.5][int(rng.integers(3))], "allow_exhaustive": bool(rng.integers(2)),
              "sort_emit": bool(i % 4 == 0 or i % 7 == 3), "label_map": bool(i % 5 == 0 or i % 7 == 3), "thresh": [None, 3, 50][int(rng.integers(3))],
              "seed": [None, int(rng.integers(1000))][int(rng.integers(2))]}
        check_iso(A, kw, ctx)


def check_iso(A, kw, ctx):
    from graphiq.utils.relabel_module import iso_finder
    n = A.shape[0]
    case = {"kind": "iso", "A": A.tolist(), "kw": kw}
    ctx.case(("iso", A.tobytes(), repr(sorted(kw.items()))), bool(A.any() and A.sum() < n * (n - 1)),
             {"A": A.tolist(), "kwargs": kw} if ctx.evaluations % 40 == 0 else None)
    ctx.count("iso_finder:calls")
    if n >= 8:
        ctx.count("iso_finder:n>=8")
    if kw["sort_emit"]:
        ctx.count("iso_finder:sort_emit")
    if kw["label_map"]:
        ctx.count("iso_finder:label_map")
    if kw["label_map"] and kw["sort_emit"]:
        ctx.count("iso_finder:label_map_and_sort_emit")
    if kw["seed"] is None:
        np.random.seed(12345)
    try:
        with warnings.catch_warnings():
            warnings.simplefilter("ignore")
            res = iso_finder(A.copy(), **kw)
    except AssertionError as e:
        if "more than the maximum possible" in str(e):
            ctx.reject("n_iso > n!")
            return
        ctx.violation("iso_finder_raises", case, {"exception": f"AssertionError: {e}"[:300]}, key="iso_exc:AssertionError")
        return
    except Exception as e:
        ctx.violation("iso_finder_raises", case, {"exception": f"{type(e).__name__}: {e}"[:300]}, key=f"iso_exc:{type(e).__name__}")
        return
    maps = None
    if isinstance(res, tuple):
        res, maps = res
    arr = [np.array(a).astype(int) for a in res]
    det = {"returned": len(arr), "n_iso": kw["n_iso"]}
    if len(arr) > kw["n_iso"]:
        ctx.violation("iso_finder_more_than_requested", case, det, key="iso_count")
    if len(arr) == 0:
        ctx.violation("iso_finder_empty", case, det, key="iso_empty")
        return
    keys = [a.tobytes() for a in arr]
    if len(set(keys)) != len(keys):
        ctx.violation("iso_finder_duplicates", case, det, key="iso_dup")
    for a in arr:
        if a.shape != A.shape or not graphs.is_simple(a) or not isomorphic(A, a):
            ctx.violation("iso_finder_not_isomorphic", case, {**det, "bad": a.tolist()}, key="iso_noniso")
            break
    emit = [max([0] + graphs.cut_rank_profile(a)) for a in arr]
    sorted_branch = kw["sort_emit"] and not (len(arr) >= kw["n_iso"] and False)
    if not kw["sort_emit"]:
        if not np.array_equal(arr[0], A):
            ctx.violation("iso_finder_input_not_first", case, det, key="iso_first")
    else:
        # documented: sorted by number of emitters (ascending) - only judged when the list is indeed a sorted variant or the input-first list
        if emit != sorted(emit) and not np.array_equal(arr[0], A):
            ctx.violation("iso_finder_neither_sorted_nor_input_first", case, {**det, "emitters": emit}, key="iso_sort")
        elif emit != sorted(emit):
            ctx.count("iso_finder:sort_emit_not_applied_early_return")
    if maps is not None:
        if len(maps) < len(arr):
            ctx.violation("iso_finder_maps_shorter_than_list", case, det, key="iso_maps")
        else:
            if len(maps) > len(arr):  # more maps than matrices: not covered by the property, recorded only
                ctx.count("iso_finder:maps_longer_than_list")
            for a, m in zip(arr, maps):
                m = dict(m)
                m.pop(-1, None)
                if sorted(m.keys()) != list(range(n)) or sorted(m.values()) != list(range(n)) or \
                        not all(A[u, v] == a[m[u], m[v]] for u in range(n) for v in range(n)):
                    ctx.violation("iso_finder_label_map_wrong", case, {**det, "map": {int(k): int(v) for k, v in m.items()}}, key="iso_maps")
                    break
    elif kw["label_map"]:
        ctx.count("iso_finder:label_map_not_returned_early_return")


# ------------------------------------------------------------------------------------------------ orbit explorers
def repeater_graph(m):
    """complete graph on m core vertices, each with one leaf (2m vertices); core = 0..m-1, leaf of i = m+i"""
    n = 2 * m
    A = np.zeros((n, n), dtype=int)
    for i, j in itertools.combinations(range(m), 2):
        A[i, j] = A[j, i] = 1
    for i in range(m):
        A[i, m + i] = A[m + i, i] = 1
    return A


def run_orbit(spec, ctx, rng):
    probe = LCProbe(ctx)
    for i in range(spec["count"]):
        fam = i % 8
        npseed = int(rng.integers(2 ** 31))
        if fam in (0, 1, 2, 3, 4):
            n = int(rng.integers(3, 9)) if fam else int(rng.integers(3, 7))
            A = graphs.random_connected_graph(rng, n, [0.15, 0.3, 0.5][i % 3]) if fam != 4 else rand_graph(rng, n, i)
            kw = {"comp_depth": [None, 1, 2, 3][int(rng.integers(4))], "orbit_size_thresh": [None, 1, 2, 5, 12][int(rng.integers(5))],
                  "with_iso": bool(rng.integers(2)), "rand": bool(fam == 3), "rep_allowed": bool(fam == 2)}
            if kw["comp_depth"] is None and kw["orbit_size_thresh"] is None and n > 6:
                kw["orbit_size_thresh"] = 30
            if kw["rep_allowed"] and kw["comp_depth"] is None:
                kw["comp_depth"] = 2
            check_orbit(A, "lc_orbit_finder", kw, npseed, ctx, probe)
        elif fam == 5:
            check_orbit(repeater_graph(int(rng.integers(2, 5))), "rgs_orbit_finder", {}, npseed, ctx, probe)
        elif fam == 6:
            nl = int(rng.integers(3, 13))
            check_orbit(graphs.named_graphs(nl)["path"], "linear_partial_orbit", {}, npseed, ctx, probe)
            if nl % 2 == 0:
                # the same (even) length again and the odd length below it, in the same process
                ctx.count("orbit:linear_even_length_repeated")
                check_orbit(graphs.named_graphs(nl)["path"], "linear_partial_orbit", {}, npseed, ctx, probe)
                check_orbit(graphs.named_graphs(nl - 1)["path"], "linear_partial_orbit", {}, npseed, ctx, probe)
        else:
            n = int(rng.integers(3, 7))
            check_orbit(graphs.random_connected_graph(rng, n, 0.3), "depth_first_orbit", {}, npseed, ctx, probe)


SCRIPTED_HISTORY = []


def check_orbit(A, method, kw, npseed, ctx, probe, replaying=False, gobj=None, depth=0, parent=None):
    import graphiq.utils.relabel_module as rm
    n = A.shape[0]
    case = {"kind": "orbit", "A": A.tolist(), "method": method, "kw": kw, "npseed": npseed}
    if parent is not None:
        case["parent"] = parent           # replay runs the parent exploration, which produces this graph object again
    if method in ("linear_partial_orbit", "rgs_orbit_finder"):
        case["earlier_scripted_calls"] = [list(x) for x in SCRIPTED_HISTORY[-12:]]
    ctx.case(("orbit", method, A.tobytes(), repr(sorted(kw.items())), npseed), True,
             {"A": A.tolist(), "method": method, "kwargs": kw} if ctx.evaluations % 25 == 0 else None)
    ctx.count({"lc_orbit_finder": "orbit:lc_orbit_finder", "rgs_orbit_finder": "orbit:rgs", "linear_partial_orbit": "orbit:linear",
               "depth_first_orbit": "orbit:depth_first"}[method])
    np.random.seed(npseed)
    probe.reset(A)
    try:
        res = getattr(rm, method)(gq.nx_from_adj(A) if gobj is None else gobj, **kw)
    except Exception as e:
        ctx.violation("orbit_explorer_raises", case, {"exception": f"{type(e).__name__}: {e}"[:300]}, key=f"orbit_exc:{method}")
        return
    if probe.bad:
        ctx.violation("local_comp_graph_wrong_inside_explorer", case, probe.bad[0], key="orbit_lcomp")
    arrs = []
    for g in res:
        if g.number_of_nodes() != n:
            ctx.violation("orbit_graph_wrong_size", case, {}, key="orbit_size")
            return
        arrs.append(gq.adj_from_nx(g, nodelist=range(n)))
    full = graphs.orbit(A) if n <= 6 else None
    for a in arrs:
        ctx.count("orbit:graphs_checked")
        inside = (graphs.adj_to_code(a) in full) if full is not None else (a.astype(int).tobytes() in probe.known)
        if not inside or not graphs.is_simple(a):
            ctx.violation("returned_graph_not_in_lc_orbit", case, {"graph": a.tolist(), "decided_by": "exhaustive orbit" if full is not None else "observed complementation chain"},
                          key=f"orbit_member:{method}")
            break
    if method in ("linear_partial_orbit", "rgs_orbit_finder") and arrs:
        # documented: "a list of distinct graphs in the orbit", "the first graph in the list is the original graph state"
        ctx.count("orbit:scripted_walk_distinctness_checked")
        if not np.array_equal(arrs[0], A):
            ctx.violation("orbit_input_not_first", case, {"first": arrs[0].tolist()}, key=f"orbit_first:{method}")
        keys = [a.astype(int).tobytes() for a in arrs]
        if len(set(keys)) != len(keys):
            dup = [(i, j) for i in range(len(keys)) for j in range(i + 1, len(keys)) if keys[i] == keys[j]][:3]
            ctx.violation("orbit_duplicates_although_distinct_promised", case, {"returned": len(arrs), "equal_positions": dup,
                                                                               "earlier_scripted_calls_in_this_process": list(SCRIPTED_HISTORY[-12:])},
                          key=f"orbit_dup:{method}")
        SCRIPTED_HISTORY.append([method, int(n)])
    if method == "lc_orbit_finder" and depth == 0 and len(res) >= 2 and n >= 4 and npseed % 3 == 0:
        # a graph handed out by the explorer is edited by its new owner (an edge toggled) and explored itself: whatever the
        # explorer left on the object must not matter
        r2 = np.random.default_rng(npseed)
        g2 = res[int(r2.integers(len(res)))]
        if sorted(g2.nodes) == list(range(n)):
            for _ in range(int(r2.integers(1, 3))):
                u, v = (int(x) for x in r2.choice(n, 2, replace=False))
                if g2.has_edge(u, v):
                    g2.remove_edge(u, v)
                else:
                    g2.add_edge(u, v)
            A2 = gq.adj_from_nx(g2, nodelist=range(n))
            if graphs.components(A2)[0] == 1:
                ctx.count("orbit:returned_graph_edited_and_explored")
                kw2 = dict(kw, comp_depth=[None, 2, 3][int(r2.integers(3))] if n <= 6 else 2, rep_allowed=False)
                if kw2["comp_depth"] is None and kw2.get("orbit_size_thresh") is None and n > 6:
                    kw2["orbit_size_thresh"] = 30
                check_orbit(A2, method, kw2, npseed + 1, ctx, probe, gobj=g2, depth=1, parent={k: v for k, v in case.items() if k != 'parent'})
    if method == "lc_orbit_finder":
        th = kw.get("orbit_size_thresh")
        if th is not None and len(arrs) > th:
            ctx.violation("orbit_more_than_threshold", case, {"returned": len(arrs), "threshold": th}, key="orbit_thresh")
        if not kw.get("rep_allowed"):
            keys = [a.tobytes() for a in arrs]
            if len(set(keys)) != len(keys):
                ctx.violation("orbit_duplicates_although_distinct_requested", case, {"returned": len(arrs)}, key="orbit_dup")
            elif not kw.get("with_iso") and n <= 7:
                for x, y in itertools.combinations(range(len(arrs)), 2):
                    if isomorphic(arrs[x], arrs[y]):
                        ctx.violation("orbit_isomorphic_pair_although_non_isomorphic_requested", case, {"i": x, "j": y}, key="orbit_iso_dup")
                        break
