"""C19 - random-search solvers are reproducible and report honest, ordered results.
History checker: probes on update_hof record, per generation, hall-of-fame scores and the object identities of hall-of-fame
and population circuits and of their operation objects; boundary monitor on solve() for ordering, honesty (stored score vs
metric re-evaluated by the harness and vs the reference-judged infidelity), result = best entry, monotone best score;
reproducibility is decided by running the same configuration twice in-process and in two fresh processes with different
PYTHONHASHSEED (the injected perturbation) and comparing halls of fame textually."""
import json
import subprocess
import numpy as np

from .. import probes, gq, boot
from ..gen import programs
from ..mon.compile import CompileMonitor, judge
from ..mon import dag as dagmon
from ..ref import graphs, dense, pauli

ID = "C19"
LEVEL = "exploration"
RULE = ("configurations = (target graph on 2..4 vertices [linear, GHZ-star, square, random connected], solver in {Evolutionary with 1-3 "
        "emitters, HybridEvolutionary}, compiler in {stabilizer, density matrix}, population 3-8, generations 3-8, hall-of-fame size "
        "1-5, tournament k, selection on/off, adaptive on/off, seed). Each configuration is solved twice in the worker, and once each in "
        "two fresh processes with PYTHONHASHSEED 1 and 2. One evaluation = one solve; distinct = distinct configuration; non-trivial = "
        "the run changed the hall of fame after the first generation or used more than one emitter")
ASSUMPTIONS = ["circuits are compared through their exported openQASM text", "honesty: the stored score must equal the solver's own metric "
               "pipeline re-run by the harness on the stored circuit (forced outcomes) and 1 - <G|rho_photons|G> of the reference state",
               "np.isclose default tolerances for score ordering, as in update_hof"]
TIMEOUT = {"quick": 900, "thorough": 7200}


def shards(tier, seed):
    return [{"seed": seed, "shard": i, "count": 5 if tier == "quick" else 90} for i in range(16)]


def floors(tier):
    return {"solves:in_process": 120, "solves:other_process": 120, "config:hybrid": 15, "config:evolutionary": 15, "config:n_emitter>1": 10,
            "config:dm": 10, "hof:entries_checked": 150, "hof:updates_observed": 200, "generations:checked": 200, "aliasing:checks": 200, "config:seed_0": 3, "config:start_circuit_given": 8, "config:probabilistic_outcomes": 4, "config:selection_with_tournaments_of_one": 12, "config:noise_map:hybrid": 5, "config:noise_map:evolutionary": 5}


def make_config(rng):
    kind = int(rng.integers(4))
    n = int(rng.integers(2, 5))
    if kind == 0:
        A = graphs.named_graphs(n)["path"]
    elif kind == 1:
        A = graphs.named_graphs(n)["star"]
    elif kind == 2:
        A = graphs.named_graphs(4)["cycle"]
    else:
        A = graphs.random_connected_graph(rng, n, 0.5)
    hybrid = bool(rng.integers(2))
    cfg = _make_config(rng, A, hybrid)
    if rng.random() < 0.15:
        # selection on with tournaments of one: every generation draws members with replacement, the corner in which a member
        # drawn twice must still be two independent circuits
        cfg.update({"selection": True, "tournament_k": 1, "n_stop": max(cfg["n_stop"], 5), "n_pop": max(cfg["n_pop"], 6), "det": 1 if cfg["det"] == "probabilistic" else cfg["det"]})
    return cfg


def _make_config(rng, A, hybrid):
    return {"adj": A.tolist(), "hybrid": hybrid, "n_emitter": int(rng.integers(1, min(3, A.shape[0]) + 1)),
            "backend": "DensityMatrixCompiler" if (rng.random() < 0.45 and not hybrid) else "StabilizerCompiler",
            "n_pop": int(rng.integers(3, 9)), "n_stop": int(rng.integers(3, 9)), "n_hof": int(rng.integers(1, 6)),
            "tournament_k": int(rng.integers(0, 4)), "selection": bool(rng.integers(2)), "adaptive": bool(rng.integers(2)),
            "start_circuit": (not hybrid) and bool(rng.random() < 0.5),
            "noise": bool(rng.random() < 0.25),
            "det": int(rng.integers(2)) if rng.random() > 0.15 else "probabilistic", "seed": int(rng.integers(100000)) if rng.random() > 0.2 else int(rng.integers(0, 2))}   # seeds 0 and 1 are common user choices


def _circ_sig(circ):
    p = programs.program_from_circuit(circ)
    return tuple(sorted((w, tuple(p.ops[i].text() for i in ids)) for w, ids in p.wires.items()))


def start_circuit(cfg):
    """the circuit a user hands over as the starting point: built by the solver's own constructor from a fixed assignment"""
    helper = build_solver(dict(cfg, start_circuit=False))
    n_p, n_e = len(cfg["adj"]), cfg["n_emitter"]
    emission = [min(i, n_e - 1) for i in range(n_p)] if n_e > 1 else n_p * [0]
    return helper.initialization(emission, [i % n_p for i in range(n_e)])


def build_solver(cfg, circuit=None):
    from graphiq.solvers.evolutionary_solver import EvolutionarySolver, EvolutionarySolverSetting
    from graphiq.solvers.hybrid_solvers import HybridEvolutionarySolver
    from graphiq.metrics import Infidelity
    m = gq.mods()
    A = np.array(cfg["adj"])
    target = m["QuantumState"](gq.nx_from_adj(A), rep_type="g")
    target.convert_representation("dm" if cfg["backend"] == "DensityMatrixCompiler" else "s")
    comp = m[cfg["backend"]]()
    comp.measurement_determinism = cfg["det"]
    setting = EvolutionarySolverSetting(n_hof=cfg["n_hof"], n_stop=cfg["n_stop"], n_pop=cfg["n_pop"], tournament_k=cfg["tournament_k"],
                                        selection_active=cfg["selection"], use_adapt_probability=cfg["adaptive"])
    nkw = {}
    if cfg.get("noise"):
        # a noise map without branching noise (the stabilizer backend multiplies its mixture by four per depolarizing event):
        # Pauli errors and photon loss change every score, which is what makes "the stored score is the metric of the stored
        # circuit under the solver's noise model" a claim with content
        import graphiq.noise.noise_models as nm
        if cfg["backend"] == "DensityMatrixCompiler":
            # (the density-matrix fidelity refuses sub-normalised states, so no photon loss here; branching noise is cheap)
            nkw = {"noise_model_mapping": {"e": {"Hadamard": nm.DepolarizingNoise(0.05), "Identity": nm.PauliError("X")},
                                           "p": {"Hadamard": nm.PauliError("X"), "Phase": nm.DepolarizingNoise(0.02), "Identity": nm.PauliError("Z")},
                                           "ee": {}, "ep": {}}}
        else:
            nkw = {"noise_model_mapping": {"e": {"Hadamard": nm.PauliError("Y"), "Identity": nm.PauliError("X")},
                                           "p": {"Hadamard": nm.PhotonLoss(0.1), "Phase": nm.PauliError("X"), "Identity": nm.PhotonLoss(0.05)},
                                           "ee": {}, "ep": {}}}
    if cfg["hybrid"]:
        s = HybridEvolutionarySolver(target=target, metric=Infidelity(target=target), compiler=comp, solver_setting=setting, **nkw)
    else:
        kw = {} if circuit is None else {"circuit": circuit}
        s = EvolutionarySolver(target=target, metric=Infidelity(target=target), compiler=comp, n_emitter=cfg["n_emitter"],
                               n_photon=A.shape[0], solver_setting=setting, **kw, **nkw)
    return s


def summarize(solver):
    hof = []
    for score, c in solver.hof:
        hof.append([None if not np.isfinite(score) else round(float(score), 10), None if c is None else c.to_openqasm()])
    res = None if solver.result is None else [round(float(solver.result[0]), 10) if np.isfinite(solver.result[0]) else None,
                                               None if solver.result[1] is None else solver.result[1].to_openqasm()]
    return {"hof": hof, "result": res}


def solve_once(cfg, circuit=None):
    if cfg.get("start_circuit") and circuit is None:
        circuit = start_circuit(cfg)
    s = build_solver(cfg, circuit)
    s.seed(cfg["seed"])
    s.solve()
    return s


CHILD = r"""
import sys, json
sys.path[:0] = [%r, %r]
from vlib import boot
boot.import_graphiq()
from vlib.props import c19
out = []
for cfg in json.load(sys.stdin):
    try:
        out.append(c19.summarize(c19.solve_once(cfg)))
    except Exception as e:
        out.append({"error": type(e).__name__ + ": " + str(e)[:200]})
print("@@" + json.dumps(out))
"""


def run_children(cfgs, hashseed):
    r = subprocess.run([boot.PY, "-c", CHILD % (boot.REPO, boot.VERIF)], input=json.dumps(cfgs), capture_output=True, text=True,
                       env=boot.child_env({"PYTHONHASHSEED": str(hashseed)}), timeout=1500)
    line = [l for l in r.stdout.splitlines() if l.startswith("@@")]
    if r.returncode != 0 or not line:
        return None, r.stderr[-400:]
    return json.loads(line[0][2:]), None


class HofProbe:
    def __init__(self, ctx):
        from graphiq.solvers.solver_base import RandomSearchSolver
        self.ctx = ctx
        self.records = []
        self.case = None
        probes.hook(RandomSearchSolver.update_hof, None, self.ret)

    def ret(self, frame, ret):
        solver = frame.f_locals.get("self")
        pop = frame.f_locals.get("population")
        self.ctx.count("hof:updates_observed")
        scores = [float(s) for s, _ in solver.hof]
        self.records.append(scores)
        # aliasing: a stored circuit must not be (or share operations with) a population member, which is mutated later
        pop_ids = set()
        pop_op_ids = set()
        for _, c in pop:
            pop_ids.add(id(c))
            for _, d in c.dag.nodes(data=True):
                pop_op_ids.add(id(d["op"]))
        for _, c in solver.hof:
            if c is None:
                continue
            self.ctx.count("aliasing:checks")
            if id(c) in pop_ids:
                self.ctx.violation("hof_entry_is_a_population_member", dict(self.case or {}), {}, key="alias:circuit")
                return
            shared = [type(d["op"]).__name__ for _, d in c.dag.nodes(data=True) if id(d["op"]) in pop_op_ids]
            if shared:
                self.ctx.violation("hof_entry_shares_operations_with_population", dict(self.case or {}), {"shared": shared[:5]}, key="alias:ops")
                return


def true_infidelity(circ, cfg, m, mon):
    """reference-judged infidelity of a stored circuit under the run's forced-outcome setting"""
    prog = programs.program_from_circuit(circ)
    comp = m["StabilizerCompiler"]()
    comp.measurement_determinism = cfg["det"]
    mon.pop_runs()
    comp.compile(circ)
    runs = mon.pop_runs()
    v = judge(prog, runs[0], None, check_each=False)
    if v:
        return None, v[0]
    ref = runs[0].ref
    A = np.array(cfg["adj"])
    n_p = A.shape[0]
    red = dense.partial_trace(ref.rho, list(range(n_p)), prog.n_q)
    g = dense.graph_state_vec(A)
    return 1 - float(np.real(np.vdot(g, red @ g))), None


def run_shard(spec, ctx):
    m = gq.mods()
    mon = CompileMonitor(None, snapshots=False)
    mon.install()
    probe = HofProbe(ctx)
    rng = np.random.default_rng([spec["seed"], 19, spec["shard"]])
    cfgs = [make_config(rng) for _ in range(spec["count"])]
    summaries = []
    for cfg in cfgs:
        summaries.append(check_config(cfg, ctx, m, mon, probe))
    # fresh processes with two different hash seeds
    for hs in (1, 2):
        res, err = run_children(cfgs, hs)
        if res is None:
            ctx.note(f"child process (PYTHONHASHSEED={hs}) failed: {err}")
            continue
        for cfg, mine, other in zip(cfgs, summaries, res):
            ctx.count("solves:other_process")
            ctx.case(("xproc", json.dumps(cfg, sort_keys=True), hs), True)
            if mine is None:
                continue
            if "error" in other:
                ctx.violation("solve_raises_in_other_process", {"config": cfg, "hashseed": hs}, other, key="xproc_exc")
            elif other != mine:
                which = "scores" if [h[0] for h in other["hof"]] != [h[0] for h in mine["hof"]] else "circuits"
                ctx.violation("hall_of_fame_differs_between_processes", {"config": cfg, "hashseed": hs},
                              {"differs_in": which, "worker_scores": [h[0] for h in mine["hof"]], "other_scores": [h[0] for h in other["hof"]],
                               "PYTHONHASHSEED": hs}, key=f"nonrepro:xproc:{'hybrid' if cfg['hybrid'] else 'evolutionary'}")


def replay(case, ctx):
    m = gq.mods()
    mon = CompileMonitor(None, snapshots=False)
    mon.install()
    probe = HofProbe(ctx)
    cfg = case["config"]
    mine = check_config(cfg, ctx, m, mon, probe)
    if "hashseed" in case:
        res, err = run_children([cfg], case["hashseed"])
        if res and res[0] != mine:
            ctx.violation("hall_of_fame_differs_between_processes", case, {"PYTHONHASHSEED": case["hashseed"]}, key="nonrepro:xproc")


def check_config(cfg, ctx, m, mon, probe):
    case = {"config": cfg}
    probe.case = case
    ctx.count("config:hybrid" if cfg["hybrid"] else "config:evolutionary")
    if cfg["seed"] == 0:
        ctx.count("config:seed_0")
    if cfg.get("noise"):
        ctx.count("config:noise_map" + (":hybrid" if cfg["hybrid"] else ":evolutionary"))
    if cfg["selection"] and cfg["tournament_k"] == 1:
        ctx.count("config:selection_with_tournaments_of_one")
    if cfg["backend"].startswith("Density"):
        ctx.count("config:dm")
    if cfg["n_emitter"] > 1 and not cfg["hybrid"]:
        ctx.count("config:n_emitter>1")
    out = []
    solvers = []
    start = None
    if cfg.get("start_circuit"):
        # the same circuit object is handed to both runs in this process (the child processes rebuild it)
        ctx.count("config:start_circuit_given")
        try:
            start = start_circuit(cfg)
            start_sig = _circ_sig(start)
        except Exception as e:
            ctx.case(("cfg", json.dumps(cfg, sort_keys=True), "start"), True)
            ctx.violation("solve_raises", case, {"exception": f"{type(e).__name__}: {e}"[:300], "where": "building the start circuit"}, key=f"start_exc:{type(e).__name__}")
            return None
    for rep in range(2):
        probe.records = []
        ctx.count("solves:in_process")
        try:
            s = solve_once(cfg, start)
            if start is not None and _circ_sig(start) != start_sig:
                ctx.violation("solve_modifies_the_circuit_it_was_given", case, {"run": rep}, key="start_modified")
        except Exception as e:
            ctx.case(("cfg", json.dumps(cfg, sort_keys=True), rep), True)
            ctx.violation("solve_raises", case, {"exception": f"{type(e).__name__}: {e}"[:300]}, key=f"solve_exc:{type(e).__name__}")
            return None
        solvers.append(s)
        out.append(summarize(s))
        recs = list(probe.records)
        changed = len({tuple(r) for r in recs}) > 1
        ctx.case(("cfg", json.dumps(cfg, sort_keys=True), rep), changed or cfg["n_emitter"] > 1,
                 {"config": cfg, "hof_scores": [h[0] for h in out[-1]["hof"]]} if ctx.evaluations % 25 == 0 else None)
        # ---- per generation: ordered, best never gets worse
        prev_best = None
        for g, scores in enumerate(recs):
            ctx.count("generations:checked")
            fin = [x for x in scores]
            for a, b in zip(fin, fin[1:]):
                if a > b and not np.isclose(a, b):
                    ctx.violation("hall_of_fame_not_ordered", case, {"generation": g, "scores": scores}, key="hof_order")
                    break
            if prev_best is not None and scores[0] > prev_best and not np.isclose(scores[0], prev_best):
                ctx.violation("best_score_got_worse", case, {"generation": g, "previous_best": prev_best, "best": scores[0]}, key="best_worse")
            prev_best = scores[0]
    if out[0] != out[1]:
        ctx.violation("hall_of_fame_differs_between_two_runs_in_one_process", case, {"scores_run1": [h[0] for h in out[0]["hof"]],
                                                                                     "scores_run2": [h[0] for h in out[1]["hof"]]}, key="nonrepro:inproc")
    # ---- final hall of fame: honesty, result
    s = solvers[0]
    if s.result is None or s.result[1] is None or not (s.result[0] == s.hof[0][0] and s.result[1] is s.hof[0][1]):
        ctx.violation("result_is_not_the_best_entry", case, {"result_score": None if s.result is None else float(s.result[0]), "best": float(s.hof[0][0])}, key="result_not_best")
    if cfg["det"] == "probabilistic":
        # the compilers' default setting: outcomes are drawn from the generators the solver seeds, so runs must still be
        # reproducible (judged above); a stored score belongs to the branch drawn then and cannot be re-evaluated
        ctx.count("config:probabilistic_outcomes")
        return out[0]
    for rank, (score, c) in enumerate(s.hof):
        if c is None:
            continue
        ctx.count("hof:entries_checked")
        try:
            comp = m[cfg["backend"]]()
            comp.measurement_determinism = cfg["det"]
            # with a noise map the documented behaviour is a noisy simulation; without one the flag is whatever the solver uses
            comp.noise_simulation = True if cfg.get("noise") else s.compiler.noise_simulation
            st = comp.compile(c)
            st.partial_trace(keep=list(range(s.n_photon)), dims=(s.n_photon + s.n_emitter) * [2])
            again = float(s.metric.evaluate(st, c))
        except Exception as e:
            ctx.violation("stored_circuit_cannot_be_re_evaluated", case, {"rank": rank, "exception": f"{type(e).__name__}: {e}"[:200]}, key="honesty_exc")
            continue
        if not np.isclose(again, float(score), atol=1e-9, rtol=0):
            ctx.violation("stored_score_differs_from_re_evaluated_metric", case, {"rank": rank, "stored": float(score), "re_evaluated": again}, key="dishonest:metric")
            continue
        if c.n_quantum <= 7 and not cfg.get("noise"):
            ref, problem = true_infidelity(c, cfg, m, mon)
            if problem is not None:
                ctx.violation("stored_circuit_compile_disagrees_with_reference", case, {"rank": rank, "problem": problem[0], **problem[1]}, key="honesty_ref:" + problem[0])
            elif abs(ref - float(score)) > 1e-7:
                ctx.violation("stored_score_differs_from_reference_infidelity", case, {"rank": rank, "stored": float(score), "reference": ref}, key="dishonest:reference")
    return out[0]
