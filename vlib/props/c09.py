"""C09 - local-Clifford equivalence of graph states is decided correctly and constructively.
Boundary monitors on is_lc_equivalent (both modes), Graph.lc_equivalent, local_clifford_ops, find_lc_operations,
converter_gate_list, lc_check, state_converter_circuit, local_comp_graph, Graph.local_complementation; probe on
_solution_basis_finder (dimension of the solution space).  Truth = exhaustive LC orbits (vlib.ref.graphs)."""
import itertools
import numpy as np

from ..ref import graphs, pauli, dense
from .. import gq, probes

ID = "C09"
LEVEL = "exploration"
RULE = ("ordered pairs of labelled simple graphs: all pairs on <=4 vertices; n=5 all 1048576 pairs (thorough) or a stratified "
        "sample (quick: every graph with a member of its orbit and with a random graph); n=6 sampled with exhaustive-orbit "
        "truth; n=7..9 pairs with constructed truth (equivalent through a random complementation word, inequivalent through a "
        "differing cut-rank invariant); connected, disconnected, with isolated vertices, identical pairs. distinct = distinct "
        "(A, B, mode) digest; non-trivial = A != B")
ASSUMPTIONS = ["truth for n<=6 from exhaustive breadth-first LC orbits computed by vlib.ref.graphs",
               "for n>=7 'inequivalent' is only asserted when some bipartition has different GF(2) cut rank (an LC invariant)"]
EXHAUSTIVE_SUBSPACES = {"quick": ["all ordered pairs of labelled graphs on <=4 vertices (deterministic mode)"],
                        "thorough": ["all ordered pairs of labelled graphs on <=5 vertices (deterministic mode)"]}
GATE = {"H": "h", "P": "s", "P_dag": "sdg", "X": "x", "Y": "y", "Z": "z", "I": "i"}
TIMEOUT = {"quick": 900, "thorough": 7200}


def shards(tier, seed):
    out = [{"kind": "exh4", "seed": seed, "shard": 0}]
    if tier == "thorough":
        for i in range(64):
            out.append({"kind": "exh5", "lo": i * 16, "hi": (i + 1) * 16, "seed": seed, "shard": i})
    else:
        for i in range(4):
            out.append({"kind": "sample5", "lo": i * 256, "hi": (i + 1) * 256, "seed": seed, "shard": i})
    for i in range(4 if tier == "quick" else 16):
        out.append({"kind": "n6", "count": 120 if tier == "quick" else 1500, "seed": seed, "shard": i})
    for i in range(4 if tier == "quick" else 16):
        out.append({"kind": "big", "count": 60 if tier == "quick" else 800, "seed": seed, "shard": i})
    out.append({"kind": "lcomp", "count": 400 if tier == "quick" else 6000, "seed": seed, "shard": 0})
    return out


def floors(tier):
    return {"pairs:equivalent": 1500, "pairs:inequivalent": 1500, "constructive:gates_verified": 500,
            "constructive:sequence_verified": 500, "lc_check:calls": 200, "lcomp:calls": 400, "pairs:disconnected": 200,
            "mode:random": 300, "constructive:random_mode_sequence_verified": 100, "pairs:disconnected_n>=9": 30, "pairs:n>=10": 20, "arguments:checked_unchanged": 2000, "history:same_arrays_asked_again": 300, "set:solution_space_dim": 5, "state_converter_circuit:calls": 50, "lc_check:non_graph_form_tableaux": 150}


class BasisProbe:
    def __init__(self, ctx):
        import graphiq.backends.lc_equivalence_check as lc
        self.ctx = ctx
        probes.hook(lc._solution_basis_finder, None, self.ret)
        self.last = None

    def ret(self, frame, ret):
        try:
            self.last = len(ret)
            self.ctx.seen("solution_space_dim", int(self.last))
        except Exception:
            pass


def orbit_truth(A, B, cache):
    k = A.tobytes()
    if k not in cache:
        cache[k] = graphs.orbit(A)
        if len(cache) > 300:
            cache.pop(next(iter(cache)))
    return graphs.adj_to_code(B) in cache[k]


def run_shard(spec, ctx):
    probe = BasisProbe(ctx)
    k = spec["kind"]
    rng = np.random.default_rng([spec["seed"], sum(map(ord, k)), spec["shard"]])
    if k == "exh4":
        for n in range(1, 5):
            part = graphs.orbit_partition(n)
            codes = range(1 << (n * (n - 1) // 2))
            for a in codes:
                for b in codes:
                    check_pair(graphs.code_to_adj(a, n), graphs.code_to_adj(b, n), part[a] == part[b], ctx, probe, rng,
                               level=2 if (a * 7 + b) % 3 == 0 else 1)
    elif k in ("exh5", "sample5"):
        part = graphs.orbit_partition(5)
        byorb = {}
        for c, o in part.items():
            byorb.setdefault(o, []).append(c)
        if k == "exh5":
            for a in range(spec["lo"], spec["hi"]):
                A = graphs.code_to_adj(a, 5)
                for b in range(1024):
                    check_pair(A, graphs.code_to_adj(b, 5), part[a] == part[b], ctx, probe, rng, level=0 if (a + b) % 50 else 2)
        else:
            for a in range(spec["lo"], spec["hi"]):
                A = graphs.code_to_adj(a, 5)
                mates = byorb[part[a]]
                for b in (mates[int(rng.integers(len(mates)))], int(rng.integers(1024)), int(rng.integers(1024)), a):
                    check_pair(A, graphs.code_to_adj(b, 5), part[a] == part[b], ctx, probe, rng, level=2 if a % 4 == 0 else 1)
    elif k == "n6":
        cache = {}
        for i in range(spec["count"]):
            n = 6
            fam = i % 4
            if fam == 0:
                A = graphs.random_connected_graph(rng, n, 0.3)
            elif fam == 1:
                A = graphs.random_graph(rng, n, 0.4)
            elif fam == 2:  # two components
                A = np.zeros((n, n), dtype=int)
                A[:3, :3] = graphs.random_connected_graph(rng, 3, 0.5)
                A[3:, 3:] = graphs.random_connected_graph(rng, 3, 0.5)
            else:
                A = list(graphs.named_graphs(n).values())[int(rng.integers(4))]
                A = graphs.relabel(A, [int(v) for v in rng.permutation(n)])
            if i % 2 == 0:
                B = A.copy()
                for _ in range(int(rng.integers(0, 6))):
                    B = graphs.local_complement(B, int(rng.integers(n)))
            else:
                B = graphs.random_graph(rng, n, 0.4) if fam != 0 else graphs.random_connected_graph(rng, n, 0.3)
            check_pair(A, B, orbit_truth(A, B, cache), ctx, probe, rng, level=2)
    elif k == "big":
        for i in range(spec["count"]):
            n = int(rng.integers(7, 10))
            if i % 6 == 0:
                n = int(rng.integers(10, 17))        # beyond every exhaustive regime: equivalent pairs by construction
                ctx.count("pairs:n>=10")
            A = graphs.random_connected_graph(rng, n, [0.15, 0.3, 0.5][i % 3]) if i % 5 else graphs.random_graph(rng, n, 0.3)
            if i % 6 == 2:
                # several components whose vertex labels interleave (a component is not a range of labels), 9..25 vertices;
                # the partner is reached by local complementations, so the pair is equivalent and keeps its partition
                n = int(rng.integers(9, 26))
                lab = rng.permutation(n)
                A = np.zeros((n, n), dtype=int)
                lo = 0
                while lo < n:
                    sz = min(n - lo, int(rng.integers(2, 6)))
                    blk = graphs.random_connected_graph(rng, sz, 0.4) if sz > 1 else np.zeros((1, 1), dtype=int)
                    idx = lab[lo:lo + sz]
                    A[np.ix_(idx, idx)] = blk
                    lo += sz
                B = A.copy()
                for _ in range(int(rng.integers(1, 12))):
                    B = graphs.local_complement(B, int(rng.integers(n)))
                ctx.count("pairs:disconnected_n>=9")
                check_pair(A, B, True, ctx, probe, rng, level=1, modes=["deterministic"] if i % 4 else ["deterministic", "random"])
                continue
            if i % 2 == 0:
                B = A.copy()
                for _ in range(int(rng.integers(1, 12))):
                    B = graphs.local_complement(B, int(rng.integers(n)))
                truth = True
            else:
                B = graphs.random_connected_graph(rng, n, [0.15, 0.3, 0.5][i % 3])
                truth = None
                for r in (1, 2, 3):
                    for S in itertools.combinations(range(n), r):
                        if graphs.cut_rank(A, S) != graphs.cut_rank(B, S):
                            truth = False
                            break
                    if truth is False:
                        break
                if truth is None:
                    ctx.count("big:truth_unknown_skipped")
                    continue
            check_pair(A, B, truth, ctx, probe, rng, level=2 if i % 3 == 0 else 1)
    elif k == "lcomp":
        run_lcomp(spec, ctx, rng)


def replay(case, ctx):
    probe = BasisProbe(ctx)
    rng = np.random.default_rng(case.get("rseed", 0))
    if case["kind"] == "pair":
        A, B = np.array(case["A"]), np.array(case["B"])
        n = A.shape[0]
        truth = case["truth"]
        check_pair(A, B, truth, ctx, probe, rng, level=2, modes=[case["mode"]] if "mode" in case else None)
    else:
        run_lcomp({"count": 200, "seed": 0, "shard": 0}, ctx, rng)


def group_of(A):
    X, Z, K = graphs.graph_stabilizers(A)
    return pauli.PTab(X, Z, K)


def apply_gates(t, gate_list):
    t = t.copy()
    for g in gate_list:
        t.apply(GATE[g[0]], int(g[1]))
    return t


def _unchanged(ctx, case, what, objs, snaps):
    """query functions must leave their arguments as they were (the same arrays / graphs are asked about again)"""
    for i, (o, b) in enumerate(zip(objs, snaps)):
        ctx.count("arguments:checked_unchanged")
        # compared as graphs (which off-diagonal entries are non-zero), not as bytes: a harmless normalisation is not a change
        same = (o.shape == b.shape and np.array_equal((o != 0) & ~np.eye(len(b), dtype=bool), (b != 0) & ~np.eye(len(b), dtype=bool))) if isinstance(o, np.ndarray) else (set(map(frozenset, o.edges)) == b[0] and list(o.nodes) == b[1])
        if not same:
            ctx.violation("argument_modified_in_place", case, {"call": what, "argument_index": i, "dtype": str(getattr(o, "dtype", "graph"))},
                          key=f"arg_modified:{what}")
            return False
    return True


def _snap(o):
    return o.copy() if isinstance(o, np.ndarray) else (set(map(frozenset, o.edges)), list(o.nodes))


def check_pair(A, B, truth, ctx, probe, rng, level=1, modes=None):
    """level 0: decision only; 1: + constructive artefacts from matrices; 2: + lc_check / Graph / circuit interfaces"""
    import graphiq.backends.lc_equivalence_check as lc
    n = A.shape[0]
    ncomp = graphs.components(A)[0]
    if ncomp > 1 or graphs.components(B)[0] > 1:
        ctx.count("pairs:disconnected")
    ctx.count("pairs:equivalent" if truth else "pairs:inequivalent")
    modes = modes or (["deterministic", "random"] if (level >= 1 and n >= 3 and ctx.evaluations % 3 == 0) else ["deterministic"])
    for mode in modes:
        case = {"kind": "pair", "A": A.tolist(), "B": B.tolist(), "truth": bool(truth), "mode": mode}
        ctx.case((A.tobytes(), B.tobytes(), mode, n), not np.array_equal(A, B),
                 {"A": A.tolist(), "B": B.tolist(), "truth_equivalent": bool(truth), "mode": mode} if ctx.evaluations % 4000 == 0 else None)
        if mode == "random":
            ctx.count("mode:random")
        probe.last = None
        # the arrays handed over are integer or float (networkx hands out floats) and are reused for every later question
        dt = [int, float][ctx.evaluations % 2]
        Ax, Bx = A.astype(dt), B.astype(dt)
        try:
            ans, sol = lc.is_lc_equivalent(Ax, Bx, mode=mode) if mode == "deterministic" else \
                lc.is_lc_equivalent(Ax, Bx, mode=mode, seed=int(rng.integers(1000)))
            _unchanged(ctx, case, "is_lc_equivalent", [Ax, Bx], [A, B])
        except Exception as e:
            ctx.violation("is_lc_equivalent_raises", case, {"exception": f"{type(e).__name__}: {e}"[:300]}, key="lc_exc")
            continue
        det = {"answer": bool(ans), "truth": bool(truth), "components_A": ncomp, "solution_space_dim": probe.last, "mode": mode, "n": n}
        if bool(ans) and not truth:
            ctx.violation("false_yes", case, det, key="lc_false_yes")
            continue
        if (not ans) and truth:
            disc = ncomp > 1
            key = "lc-false-no-disconnected" if (disc and mode == "deterministic") else ("lc_false_no:" + mode)
            ctx.violation("false_no", case, det, key=key)
            continue
        if not ans or level == 0:
            continue
        # ---------------- constructive part
        sol = np.array(sol)
        if sol.shape != (n, 2, 2) or any((int(s[0, 0]) * int(s[1, 1]) + int(s[0, 1]) * int(s[1, 0])) % 2 != 1 for s in sol):
            ctx.violation("solution_not_symplectic_blocks", case, {"solution": sol.tolist()}, key="lc_solution_shape")
            continue
        names = lc.local_clifford_ops(sol)
        if len(names) != n:
            ctx.violation("local_clifford_ops_incomplete", case, {"names": names, "solution": sol.tolist()}, key="lc_names")
            continue
        # names applied (right-most factor first) must map <A> to <B> up to Pauli signs
        t = group_of(A)
        for q, nm in enumerate(names):
            for g in nm.split()[::-1]:
                t.apply(GATE[g], q)
        if not t.same_group_up_to_signs(group_of(B)):
            ctx.violation("local_clifford_names_do_not_map_A_to_B", case, {"names": names, "solution": sol.tolist()}, key="lc_names_wrong")
            continue
        if mode == "random":
            # the sequence-producing entry point in random mode, arguments passed by position as its signature lists them
            try:
                sd = int(rng.integers(0, 4)) if ctx.evaluations % 2 else int(rng.integers(1, 1000))      # 0 is the documented default seed
                seqr = lc.find_lc_operations(Ax, Bx, "random", sd) if sd else lc.find_lc_operations(Ax, Bx, "random")
                C = A.copy()
                for v in seqr:
                    C = graphs.local_complement(C, int(v))
                ctx.count("constructive:random_mode_sequence_verified")
                if not np.array_equal(C, B):
                    ctx.violation("complementation_sequence_wrong", case, {"sequence": [int(v) for v in seqr], "reached": C.tolist(), "mode": "random"}, key="lc_seq_wrong:random")
            except Exception as e:
                ctx.violation("find_lc_operations_raises", case, {"exception": f"{type(e).__name__}: {e}"[:300], "mode": "random", "solution_space_dim": probe.last},
                              key="lc_seq_exc:random")
        if mode == "deterministic":
            try:
                seq = lc.find_lc_operations(Ax, Bx)
                if _unchanged(ctx, case, "find_lc_operations", [Ax, Bx], [A, B]) or True:
                    again, _ = lc.is_lc_equivalent(Ax, Bx, mode="deterministic")
                    seq2 = lc.find_lc_operations(Ax, Bx)
                    ctx.count("history:same_arrays_asked_again")
                    if not again or [int(v) for v in seq2] != [int(v) for v in seq]:
                        ctx.violation("answer_changes_when_the_same_arrays_are_asked_again", case, {"first_sequence": [int(v) for v in seq],
                                      "second_answer": bool(again), "second_sequence": [int(v) for v in seq2]}, key="lc_history")
                C = A.copy()
                for v in seq:
                    C = graphs.local_complement(C, int(v))
                ctx.count("constructive:sequence_verified")
                if not np.array_equal(C, B):
                    ctx.violation("complementation_sequence_wrong", case, {"sequence": [int(v) for v in seq], "reached": C.tolist()}, key="lc_seq_wrong")
            except Exception as e:
                ctx.violation("find_lc_operations_raises", case, {"exception": f"{type(e).__name__}: {e}"[:300]}, key="lc_seq_exc")
        from graphiq.backends.stabilizer.functions.local_cliff_equi_check import converter_gate_list, lc_check, state_converter_circuit
        gA, gB = gq.nx_from_adj(A), gq.nx_from_adj(B)
        try:
            sA, sB = _snap(gA), _snap(gB)
            gl = converter_gate_list(gA, gB)
            _unchanged(ctx, case, "converter_gate_list", [gA, gB], [sA, sB])
            ctx.count("constructive:gates_verified")
            if not apply_gates(group_of(A), gl).same_group(group_of(B)):
                ctx.violation("converter_gate_list_wrong", case, {"gates": [list(map(str, g)) for g in gl]}, key="lc_gates_wrong")
            elif n <= 5 and ctx.counters["constructive:gates_verified"] % 10 == 0:
                rho = dense.ket2dm(dense.graph_state_vec(A))
                for g in gl:
                    rho = dense.gate(rho, GATE[g[0]], [int(g[1])], n)
                if not np.allclose(rho, dense.ket2dm(dense.graph_state_vec(B)), atol=1e-9, rtol=0):
                    ctx.violation("converter_gate_list_wrong_dense", case, {"gates": [list(map(str, g)) for g in gl]}, key="lc_gates_wrong")
        except Exception as e:
            ctx.violation("converter_gate_list_raises", case, {"exception": f"{type(e).__name__}: {e}"[:300]}, key="lc_gates_exc")
        if level < 2:
            continue
        # ---------------- interfaces: lc_check on graphs / tableaux, Graph.lc_equivalent, state_converter_circuit
        from graphiq.backends.graph.state import Graph
        try:
            a2, _ = Graph(gq.nx_from_adj(A)).lc_equivalent(Graph(gq.nx_from_adj(B)), mode=mode)
            if bool(a2) != bool(truth):
                ctx.violation("Graph.lc_equivalent_wrong", case, {"answer": bool(a2), **det}, key="lc_graph_iface")
        except Exception as e:
            ctx.violation("Graph.lc_equivalent_raises", case, {"exception": f"{type(e).__name__}: {e}"[:300]}, key="lc_graph_iface_exc")
        which = int(rng.integers(5))
        t1, t2 = group_of(A), group_of(B)
        if which == 0:
            s1, s2 = gq.nx_from_adj(A), gq.nx_from_adj(B)
        elif which == 1:
            s1 = gq.ptab_to_stabilizer_tableau(t1)
            s2 = gq.ptab_to_stabilizer_tableau(t2)
        elif which == 2:
            s1 = gq.ptab_to_clifford(t1, rng)
            s2 = gq.ptab_to_clifford(t2, rng)
        else:
            # stabilizer states that are local-Clifford images of the two graph states (not in graph form): the gate list
            # has to undo the reduction of the second state in the right order
            def rotate(t):
                t = t.copy()
                for q in range(n):
                    for g in [["h", "s", "sdg", "x", "z", "y"][int(v)] for v in rng.integers(0, 6, int(rng.integers(0, 4)))]:
                        t.apply(g, q)
                return pauli.scramble_generators(rng, t) if n >= 2 else t
            if which == 3:
                t2 = rotate(t2)
            else:
                t1, t2 = rotate(t1), rotate(t2)
            ctx.count("lc_check:non_graph_form_tableaux")
            s1 = gq.ptab_to_stabilizer_tableau(t1) if rng.random() < 0.5 else gq.ptab_to_clifford(t1, rng)
            s2 = gq.ptab_to_stabilizer_tableau(t2) if rng.random() < 0.5 else gq.ptab_to_clifford(t2, rng)
        for validate in (True, False):
            try:
                ok, gl = lc_check(s1, s2, validate=validate)
                ctx.count("lc_check:calls")
                if not ok:
                    ctx.violation("lc_check_false_no", case, {"input_kind": which, **det}, key="lc_check_false_no")
                elif not apply_gates(t1, gl).same_group(t2):
                    ctx.violation("lc_check_gates_wrong", case, {"gates": [list(map(str, g)) for g in gl], "input_kind": which, "validate": validate,
                                                                 "state1": t1.labels()[:8], "state2": t2.labels()[:8]}, key="lc_check_gates")
            except Exception as e:
                ctx.violation("lc_check_raises", case, {"exception": f"{type(e).__name__}: {e}"[:300], "input_kind": which, "validate": validate,
                                                        "state1": t1.labels()[:8], "state2": t2.labels()[:8]}, key="lc_check_exc")
            if which < 3:
                break
        if ctx.counters.get("lc_check:calls", 0) % 4 == 0:
            try:
                circ = state_converter_circuit(gq.nx_from_adj(A), gq.nx_from_adj(B))
                ctx.count("state_converter_circuit:calls")
                t = group_of(A)
                for op in circ.sequence(unwrapped=True):
                    nm = type(op).__name__
                    if nm in ("Input", "Output"):
                        continue
                    t.apply({"Hadamard": "h", "Phase": "s", "PhaseDagger": "sdg", "SigmaX": "x", "SigmaY": "y", "SigmaZ": "z",
                             "Identity": "i"}[nm], op.register)
                    if op.reg_type != "p":
                        ctx.violation("state_converter_circuit_not_on_photons", case, {}, key="lc_circuit")
                if not t.same_group(group_of(B)):
                    ctx.violation("state_converter_circuit_wrong", case, {}, key="lc_circuit")
            except Exception as e:
                ctx.violation("state_converter_circuit_raises", case, {"exception": f"{type(e).__name__}: {e}"[:300]}, key="lc_circuit_exc")


def run_lcomp(spec, ctx, rng):
    import graphiq.backends.lc_equivalence_check as lc
    from graphiq.backends.graph.state import Graph
    for i in range(spec["count"]):
        n = int(rng.integers(1, 11))
        A = graphs.random_graph(rng, n, [0.2, 0.5, 0.8][i % 3])
        v = int(rng.integers(n))
        case = {"kind": "lcomp", "A": A.tolist(), "v": v}
        ctx.case(("lcomp", A.tobytes(), v), bool(A[v].sum() >= 2))
        ctx.count("lcomp:calls")
        ref = graphs.local_complement(A, v)
        try:
            g1 = lc.local_comp_graph(gq.nx_from_adj(A), v)
            got = gq.adj_from_nx(g1, nodelist=range(n))
            g2 = lc.local_comp_graph(g1, v)
            back = gq.adj_from_nx(g2, nodelist=range(n))
        except Exception as e:
            ctx.violation("local_comp_graph_raises", case, {"exception": f"{type(e).__name__}: {e}"[:300]}, key="lcomp_exc")
            continue
        if not np.array_equal(got, ref) or not graphs.is_simple(got):
            ctx.violation("local_complementation_wrong", case, {"got": got.tolist(), "expected": ref.tolist()}, key="lcomp_wrong")
        if not np.array_equal(back, A):
            ctx.violation("local_complementation_not_involution", case, {}, key="lcomp_invol")
        try:
            G = Graph(gq.nx_from_adj(A))
            G2 = G.local_complementation(v, copy=True)
            got2 = gq.adj_from_nx(G2.data, nodelist=range(n))
            same_obj = G.local_complementation(v)
            got3 = gq.adj_from_nx(G.data, nodelist=range(n))
            if not np.array_equal(got2, ref) or not np.array_equal(got3, ref):
                ctx.violation("Graph.local_complementation_wrong", case, {"copy": got2.tolist(), "inplace": got3.tolist(), "expected": ref.tolist()},
                              key="lcomp_graph_wrong")
            G.local_complementation(v)
            if not np.array_equal(gq.adj_from_nx(G.data, nodelist=range(n)), A):
                ctx.violation("Graph.local_complementation_not_involution", case, {}, key="lcomp_graph_invol")
        except Exception as e:
            ctx.violation("Graph.local_complementation_raises", case, {"exception": f"{type(e).__name__}: {e}"[:300]}, key="lcomp_graph_exc")
