"""C13 - circuit rewrites preserve the state; library calls do not mutate their inputs.
(a) rewrites: copy / unwrap_nodes / group_one_qubit_gates / remove_identity / assign_noise(empty map) applied to a copy must
    compile (forced outcomes, both backends) to the state of the original, which itself is judged by the reference.
(b) offline history checker: a random interleaving of library calls on a pool of shared objects; before and after every
    call a fingerprint of EVERY pool object is recorded; any change of an object the call must not modify is a refutation."""
import copy
import numpy as np

from ..gen import programs
from ..gen.programs import ONEQ
from ..mon.compile import CompileMonitor, judge
from ..ref import pauli, dense, graphs
from .. import gq

ID = "C13"
LEVEL = "exploration"
RULE = ("(a) random programs (1..5 qubits, full alphabet) x rewrites {copy, unwrap_nodes, group_one_qubit_gates, remove_identity, "
        "assign_noise(empty)} x backend x forced outcome; (b) pools of 2-3 circuits (random programs and solver outputs), targets in "
        "graph / stabilizer / density-matrix form, noise maps and initial states, exercised by random histories (5..25 calls) over "
        "{compile (both backends, noise on/off, with initial state), metric evaluation, TimeReversedSolver construction+solve, "
        "assign_noise, MonteCarloNoise construction/assign_noise/run, compare, export, rewrites on copies}. One evaluation = one "
        "rewrite comparison or one history; distinct = distinct program/history digest; non-trivial = more than 2 operations / calls")
ASSUMPTIONS = ["the fingerprint of a circuit is its per-register sequence of operations with classes, registers, wrapper contents, labels and "
               "attached noise (class and parameters); of a target the state it denotes (a change of representation is not a mutation); "
               "compiler objects are configuration and are not fingerprinted"]
TIMEOUT = {"quick": 900, "thorough": 7200}


def shards(tier, seed):
    out = []
    for i in range(8):
        out.append({"kind": "rewrite", "count": 40 if tier == "quick" else 900, "seed": seed, "shard": i})
    for i in range(8):
        out.append({"kind": "history", "count": 25 if tier == "quick" else 600, "seed": seed, "shard": i})
    return out


def floors(tier):
    f = {"rewrite:compared": 1500, "history:runs": 150, "history:calls": 1500, "history:results_compared_with_untouched_copy": 300, "history:metric_with_non_graph_target": 15}
    for r in ("copy", "unwrap", "group", "remove_identity", "assign_noise_empty"):
        f["rewrite:" + r] = 150
    for c in ("compile", "metric", "solver", "assign_noise", "monte_carlo", "compare", "rewrite_on_copy", "export", "compile_initial"):
        f["call:" + c] = 40
    return f


# ------------------------------------------------------------------------------------------------ fingerprints
def noise_fp(noise):
    if isinstance(noise, list):
        return tuple(noise_fp(x) for x in noise)
    params = getattr(noise, "noise_parameters", None)
    return (type(noise).__name__ if not isinstance(noise, type) else "class:" + noise.__name__,
            repr(sorted((k, repr(v)) for k, v in params.items())) if isinstance(params, dict) else None)


def circuit_fp(circ):
    regs = circ.register
    out = [tuple(len(regs[t]) for t in ("e", "p", "c"))]
    for t in ("e", "p"):
        for i in range(len(regs[t])):
            wire = []
            for e in programs.wire_edges(circ, t, i)[:-1]:
                op = circ.dag.nodes[e[1]]["op"]
                wire.append((type(op).__name__, tuple(op.q_registers), tuple(op.q_registers_type), tuple(op.c_registers),
                             tuple(g.__name__ for g in getattr(op, "operations", ())), tuple(sorted(op.labels)), noise_fp(op.noise)))
            out.append(tuple(wire))
    # edge attributes are part of the object other functions read (e.g. the GED comparison compares them)
    out.append(tuple(sorted((str(u), str(v), str(k), tuple(sorted((a, repr(b)) for a, b in d.items()))) for u, v, k, d in circ.dag.edges(keys=True, data=True))))
    return tuple(out)


class HistoryDependence(Exception):
    pass


def unwrapped_fp(circ):
    """the circuit as the compilers execute it: per register, the unwrapped gates with the noise each carries"""
    x = circ.copy()
    x.unwrap_nodes()
    return circuit_fp(x)[:-1]


def state_fp(qs):
    """the state a QuantumState denotes, independent of the representation currently held (dense matrix, n <= 6)"""
    rep = qs.rep_type
    data = qs.rep_data
    if rep == "g":
        rho = dense.ket2dm(dense.graph_state_vec(gq.adj_from_nx(data.data)))
    elif rep == "s":
        if type(data).__name__ == "MixedStabilizer":
            rho = sum(p * dense.projector_of_group(gq.clifford_stab_ptab(t)) for p, t in data.mixture)
        else:
            rho = dense.projector_of_group(gq.clifford_stab_ptab(data.data))
    else:
        rho = np.array(data.data)
    return (np.round(np.asarray(rho, dtype=complex), 7) + (0 + 0j)).tobytes()


def map_fp(m):
    if hasattr(m, "mapping"):
        m = m.mapping
    return repr(sorted((k, sorted((g, noise_fp(v) if not isinstance(v, list) or not v or not isinstance(v[0], tuple)
                                   else tuple((noise_fp(a), b) for a, b in v)) for g, v in d.items())) for k, d in m.items()))


# ------------------------------------------------------------------------------------------------ (a) rewrites
def compiled(circ, backend, det, m, noise_sim=False):
    comp = m[backend]()
    comp.measurement_determinism = det
    comp.noise_simulation = noise_sim
    st = comp.compile(circ)
    d = st.rep_data
    if type(d).__name__ == "DensityMatrix":
        return np.array(d.data)
    if type(d).__name__ == "MixedStabilizer":
        return [(p, gq.clifford_stab_ptab(t)) for p, t in d.mixture]
    return gq.clifford_stab_ptab(d.data)


def same(a, b):
    if isinstance(a, np.ndarray):
        return isinstance(b, np.ndarray) and a.shape == b.shape and np.allclose(a, b, atol=1e-8, rtol=0)
    if isinstance(a, list):
        if not isinstance(b, list) or len(a) != len(b):
            return False
        ka = sorted((round(p, 10), pauli.fast_key(t)) for p, t in a)
        kb = sorted((round(p, 10), pauli.fast_key(t)) for p, t in b)
        return ka == kb
    return not isinstance(b, (np.ndarray, list)) and pauli.same_group_fast(a, b)


def run_rewrites(spec, ctx):
    m = gq.mods()
    mon = CompileMonitor(ctx.count, snapshots=False)
    mon.install()
    for i in range(spec["count"]):
        pseed = [spec["seed"], 13, spec["shard"], i]
        check_rewrites(pseed, ctx, m, mon)


def check_rewrites(pseed, ctx, m, mon):
    rng = np.random.default_rng(pseed)
    while True:
        n_e, n_p = int(rng.integers(0, 4)), int(rng.integers(0, 4))
        if 1 <= n_e + n_p <= 5:
            break
    with_mz = rng.random() < 0.4
    alphabet = programs.FULL_ALPHABET if with_mz else [k for k in programs.FULL_ALPHABET if k != "MZ"]
    if rng.random() < 0.1:
        alphabet = ["CNOT", "CZ", "MR"]      # no one-qubit gate at all
    prog, circ = programs.random_program(rng, n_e, n_p, int(rng.integers(1, 3)), int(rng.integers(0, 18)), alphabet=alphabet)
    case = {"kind": "rewrite", "pseed": pseed, "program": prog.text(), "registers": [prog.n_e, prog.n_p, prog.n_c]}
    fp0 = circuit_fp(circ)
    empty_map = {"e": {}, "p": {}, "ee": {}, "ep": {}, "pe": {}, "pp": {}}
    rewrites = {
        "copy": lambda c: c,
        "unwrap": lambda c: (c.unwrap_nodes(), c)[1],
        "group": lambda c: (c.group_one_qubit_gates(), c)[1],
        "remove_identity": lambda c: (c.remove_identity(), c)[1],
        "assign_noise_empty": lambda c: c.assign_noise(empty_map),
    }
    configs = [("StabilizerCompiler", 0), ("StabilizerCompiler", 1)] + ([("DensityMatrixCompiler", int(rng.integers(2)))] if prog.n_q <= 4 else [])
    base = {}
    for (backend, det) in configs:
        mon.pop_runs()
        comp = m[backend]()
        comp.measurement_determinism = det
        try:
            comp.compile(circ)
        except Exception:
            pass
        runs = mon.pop_runs()
        v = judge(prog, runs[0], None, check_each=False) if runs else [("no_run", {})]
        if v:
            ctx.violation("original_compile_disagrees_with_reference", case, {"config": [backend, det], "problem": v[0][0], **v[0][1]}, key="orig:" + v[0][0])
            return
        base[(backend, det)] = compiled(circ, backend, det, m)
        # repeating a deterministic compile returns the same state
        if not same(base[(backend, det)], compiled(circ, backend, det, m)):
            ctx.violation("repeated_compile_differs", case, {"config": [backend, det]}, key="repeat_compile")
    for name, f in rewrites.items():
        ctx.count("rewrite:" + name)
        ctx.case((tuple(prog.text()), name), len(prog.ops) > 2, {"program": prog.text(), "rewrite": name} if ctx.evaluations % 400 == 0 else None)
        try:
            c2 = f(circ.copy())
        except Exception as e:
            kinds = [o.kind for o in prog.live_ops()]
            cond = "with_MZ" if "MZ" in kinds else ("no_one_qubit_gate" if not any(k in ONEQ or k == "W" for k in kinds) else "other")
            ctx.violation("rewrite_raises", case, {"rewrite": name, "exception": f"{type(e).__name__}: {e}"[:300], "circuit": cond}, key=f"rewrite_exc:{name}:{cond}")
            continue
        for cfg in configs:
            ctx.count("rewrite:compared")
            try:
                got = compiled(c2, cfg[0], cfg[1], m, noise_sim=(name == "assign_noise_empty"))
                if isinstance(got, list):
                    got = got[0][1] if len(got) == 1 and abs(got[0][0] - 1) < 1e-12 else got
            except Exception as e:
                ctx.violation("rewritten_circuit_does_not_compile", case, {"rewrite": name, "config": list(cfg), "exception": f"{type(e).__name__}: {e}"[:300]},
                              key=f"rewrite_compile_exc:{name}")
                break
            if not same(base[cfg], got):
                ctx.violation("rewrite_changes_compiled_state", case, {"rewrite": name, "config": list(cfg)}, key=f"rewrite_state:{name}")
                break
    if circuit_fp(circ) != fp0:
        ctx.violation("original_circuit_changed_by_rewrites_on_copies", case, {}, key="rewrite_mutates_original")


# ------------------------------------------------------------------------------------------------ (b) histories
class Pool:
    def __init__(self, rng, m):
        import graphiq.noise.noise_models as nm
        from graphiq.noise.monte_carlo_noise import McNoiseMap
        self.m = m
        self.nm = nm
        self.objs = {}
        self.progs = {}
        self.pristine = {}
        # circuits
        for k in range(int(rng.integers(2, 4))):
            if k == 0:
                n_e, n_p = int(rng.integers(1, 3)), int(rng.integers(1, 3))
                alphabet = [a for a in programs.FULL_ALPHABET if a not in ("MZ", "cCNOT", "cCZ")]
                prog, circ = programs.random_program(rng, n_e, n_p, 1, int(rng.integers(2, 12)), alphabet=alphabet)
            else:
                from .c18 import gen_A      # solver vocabulary: emitter-controlled two-qubit operations only
                prog, circ = gen_A(rng, allow_big=False)    # the pool circuits are also compiled with the density-matrix backend
            self.objs[f"circuit{k}"] = circ
            self.progs[f"circuit{k}"] = prog
            # a copy taken before anything has been done with the circuit and never handed to any call: what a call returns
            # for the circuit must be what it returns for (a copy of) this one, whatever was called in between
            self.pristine[f"circuit{k}"] = copy.deepcopy(circ)
        # targets
        A = graphs.random_connected_graph(rng, int(rng.integers(2, 5)), 0.5)
        self.target_adj = A
        # half of the pools: the nodes of the target graph are created in another order than the sorted one (graphiq reads
        # qubit k as the k-th node created; the fingerprint does the same)
        order = [int(v) for v in rng.permutation(A.shape[0])] if rng.random() < 0.5 else None
        self.unsorted_target = order is not None and order != sorted(order)
        for rep in ("g", "s", "dm"):
            q = m["QuantumState"](gq.nx_from_adj(A, order), rep_type="g")
            if rep != "g":
                q.convert_representation(rep)
            self.objs["target_" + rep] = q
        # noise maps
        def placed(noise, after):
            noise.noise_parameters["After gate"] = after
            return noise
        # noise before and after the gate, and pairs with different positions on one two-qubit gate
        self.objs["noise_map"] = {"e": {"Hadamard": placed(nm.DepolarizingNoise(0.1), bool(rng.integers(2))), "SigmaX": nm.PauliError("Z")},
                                  "p": {"Phase": placed(nm.PauliError("X"), False)},
                                  "ee": {"CNOT": [placed(nm.DepolarizingNoise(0.05), True), placed(nm.PauliError("Z"), False)]},
                                  "ep": {"CNOT": [placed(nm.DepolarizingNoise(0.02), False), placed(nm.PauliError("Y"), True)],
                                         "MeasurementCNOTandReset": nm.NoNoise()},
                                  "pe": {}, "pp": {}}
        mc = McNoiseMap()
        mc.add_gate_noise("e", "Hadamard", [(nm.PauliError("X"), 0.3)])
        mc.add_gate_noise("ep", "CNOT", [(nm.PauliError("Z"), 0.2), (nm.PauliError("Y"), 0.1)])
        mc.add_gate_noise("p", "Phase", [(nm.PauliError("Z"), 0.5)])
        self.objs["mc_map"] = mc
        # initial states (for circuit0)
        n0 = self.progs["circuit0"].n_q
        t = pauli.random_stabilizer_group(rng, n0)
        self.objs["initial_s"] = m["QuantumState"](gq.ptab_to_clifford(t, rng), rep_type="s")
        self.objs["initial_dm"] = m["QuantumState"](dense.projector_of_group(t), rep_type="dm")
        # targets that are not graph states (a conversion through the graph form would change them), sized for circuit0
        t2 = pauli.random_stabilizer_group(rng, n0)
        self.objs["target_ng_s"] = m["QuantumState"](gq.ptab_to_clifford(t2, rng), rep_type="s")
        self.objs["target_ng_dm"] = m["QuantumState"](dense.projector_of_group(t2), rep_type="dm")

    def fingerprints(self):
        out = {}
        for k, o in self.objs.items():
            if k.startswith("circuit") or k.startswith("derived"):
                out[k] = circuit_fp(o)
            elif k.startswith("target") or k.startswith("initial"):
                out[k] = state_fp(o)
            else:
                out[k] = map_fp(o)
        return out


CALLS = ["compile", "compile", "metric", "solver", "assign_noise", "monte_carlo", "compare", "rewrite_on_copy", "export", "compile_initial"]


def do_call(pool, name, rng, ctx):
    """perform one library call; returns (description, set of pool keys the call may legitimately add)"""
    m = pool.m
    gm = __import__("graphiq.metrics", fromlist=["x"])
    circs = [k for k in pool.objs if k.startswith("circuit") or k.startswith("derived")]
    ck = circs[int(rng.integers(len(circs)))]
    c = pool.objs[ck]
    backend = ["StabilizerCompiler", "DensityMatrixCompiler"][int(rng.integers(2))]
    comp = m[backend]()
    comp.measurement_determinism = [0, 1, "probabilistic"][int(rng.integers(3))]
    if name == "compile":
        comp.noise_simulation = bool(rng.integers(2))
        st = comp.compile(c)
        if ck in pool.pristine and comp.measurement_determinism in (0, 1) and st.n_qubits <= 6:
            comp2 = m[backend]()
            comp2.measurement_determinism, comp2.noise_simulation = comp.measurement_determinism, comp.noise_simulation
            st0 = comp2.compile(copy.deepcopy(pool.pristine[ck]))
            ctx.count("history:results_compared_with_untouched_copy")
            if state_fp(st) != state_fp(st0):
                raise HistoryDependence(f"{backend}(noise_simulation={comp.noise_simulation}).compile({ck}) differs from the compile of an untouched copy")
        return f"{backend}(noise_simulation={comp.noise_simulation}).compile({ck})"
    if name == "compile_initial":
        ik = "initial_s" if backend == "StabilizerCompiler" else "initial_dm"
        comp.compile(pool.objs["circuit0"], pool.objs[ik])
        return f"{backend}.compile(circuit0, initial_state={ik})"
    if name == "metric":
        st = comp.compile(c)
        which = int(rng.integers(4))
        if which == 0:
            tk = ["target_g", "target_s", "target_dm", "target_ng_s", "target_ng_dm", "target_ng_dm"][int(rng.integers(6))]
            tq = pool.objs[tk]
            if tk.startswith("target_ng"):
                c = pool.objs["circuit0"]
                ck = "circuit0"
                st = comp.compile(c)
                ctx.count("history:metric_with_non_graph_target")
            if tq.n_qubits == st.n_qubits and tq.rep_type in ("s", "dm"):
                gm.Infidelity(tq).evaluate(st, c)
                return f"Infidelity({tk}).evaluate(compile({ck}))"
            gm.CircuitDepth().evaluate(st, c)
            return f"CircuitDepth.evaluate({ck})"
        cls = ["CircuitUnitaryCount", "CircuitMaxEmitDepth", "CircuitMeasureCount"][which - 1]
        getattr(gm, cls)().evaluate(st, c)
        return f"{cls}.evaluate({ck})"
    if name == "solver":
        from graphiq.solvers.time_reversed_solver import TimeReversedSolver
        tk = ["target_g", "target_s", "target_dm"][int(rng.integers(3))]
        tq = pool.objs[tk]
        comp.measurement_determinism = 1
        noise = pool.objs["noise_map"] if (rng.random() < 0.3 and backend == "StabilizerCompiler") else None
        s = TimeReversedSolver(target=tq, metric=gm.Infidelity(target=tq), compiler=comp, noise_model_mapping=noise)
        s.solve()
        return f"TimeReversedSolver({tk}, noise={'map' if noise else None}).solve()"
    if name == "assign_noise":
        d = c.assign_noise(pool.objs["noise_map"])
        if ck in pool.pristine:
            d0 = copy.deepcopy(pool.pristine[ck]).assign_noise(pool.objs["noise_map"])
            ctx.count("history:results_compared_with_untouched_copy")
            if unwrapped_fp(d) != unwrapped_fp(d0):
                raise HistoryDependence(f"{ck}.assign_noise(noise_map) differs (as executed: unwrapped gates with their noise) from the result for an untouched copy")
        key = f"derived{len(pool.objs)}"
        if len([k for k in pool.objs if k.startswith("derived")]) < 2:
            pool.objs[key] = d
        return f"{ck}.assign_noise(noise_map)"
    if name == "monte_carlo":
        from graphiq.noise.monte_carlo_noise import MonteCarloNoise
        # Monte-Carlo noise is defined for a noise-free circuit: the noisy derived copies are not given to it
        originals = [k for k in circs if k.startswith("circuit")]
        ck = originals[int(rng.integers(len(originals)))]
        c = pool.objs[ck]
        mc = MonteCarloNoise(c, n_sample=2, mc_noise_model=pool.objs["mc_map"], compiler=m["StabilizerCompiler"](), seed=int(rng.integers(100)))
        if rng.random() < 0.5:
            mc.run()
            return f"MonteCarloNoise({ck}).run()"
        mc.n_noisy_gates = 0
        mc.assign_noise()
        return f"MonteCarloNoise({ck}).assign_noise()"
    if name == "compare":
        c2k = circs[int(rng.integers(len(circs)))]
        c.compare(pool.objs[c2k], method=["direct", "is_isomorphic"][int(rng.integers(2))])
        return f"{ck}.compare({c2k})"
    if name == "rewrite_on_copy":
        cc = c.copy()
        cc.unwrap_nodes()
        cc.remove_identity()
        return f"{ck}.copy().unwrap_nodes().remove_identity()"
    if name == "export":
        q, j, d_ = c.to_openqasm(), c.to_json(), c.depth
        if ck in pool.pristine:
            c0 = copy.deepcopy(pool.pristine[ck])
            ctx.count("history:results_compared_with_untouched_copy")
            if (q, repr(j), d_) != (c0.to_openqasm(), repr(c0.to_json()), c0.depth):
                raise HistoryDependence(f"{ck}.to_openqasm()/to_json()/depth differ from those of an untouched copy")
        return f"{ck}.to_openqasm()/to_json()"
    raise ValueError(name)


def run_history(hseed, ctx, m):
    rng = np.random.default_rng(hseed)
    np.random.seed(int(rng.integers(2 ** 31)))
    pool = Pool(rng, m)
    if pool.unsorted_target:
        ctx.count("pool:target_nodes_created_unsorted")
    L = int(rng.integers(5, 26))
    calls = []
    ctx.count("history:runs")
    fp = pool.fingerprints()
    for step in range(L):
        name = CALLS[int(rng.integers(len(CALLS)))]
        try:
            desc = do_call(pool, name, rng, ctx)
        except HistoryDependence as e:
            ctx.violation("result_depends_on_earlier_calls", {"kind": "history", "hseed": hseed}, {"problem": str(e), "history": calls[-8:]},
                          key=f"history_dependence:{name}")
            ctx.case(("h", tuple(hseed)), True)
            return
        except Exception as e:
            desc = f"{name} raised {type(e).__name__}: {e}"[:200]
            ctx.count("history:call_raised:" + name + ":" + type(e).__name__)
        calls.append(desc)
        ctx.count("history:calls")
        ctx.count("call:" + name)
        fp2 = pool.fingerprints()
        for k, v in fp.items():
            if k in fp2 and fp2[k] != v:
                strip = lambda f: [tuple(x[:6] for x in w) if isinstance(w, tuple) and w and isinstance(w[0], tuple) and len(w[0]) == 7 else w for w in f]
                what = "noise" if (k.startswith("circuit") or k.startswith("derived")) and strip(v) == strip(fp2[k]) else "content"
                ctx.violation("input_object_mutated", {"kind": "history", "hseed": hseed}, {"object": k, "changed": what, "by_call": desc, "history": calls[-6:]},
                              key=f"mutated:{k.rstrip('0123456789')}:{name}:{what}")
                ctx.case(("h", tuple(hseed)), True)
                return
        fp = fp2
    ctx.case(("h", tuple(hseed)), L > 2, {"history": calls[:12]} if ctx.evaluations % 30 == 0 else None)


def run_shard(spec, ctx):
    m = gq.mods()
    if spec["kind"] == "rewrite":
        run_rewrites(spec, ctx)
    else:
        for i in range(spec["count"]):
            run_history([spec["seed"], 131, spec["shard"], i], ctx, m)


def replay(case, ctx):
    m = gq.mods()
    if case["kind"] == "rewrite":
        mon = CompileMonitor(ctx.count, snapshots=False)
        mon.install()
        check_rewrites(case["pseed"], ctx, m, mon)
    else:
        run_history(case["hseed"], ctx, m)
