"""C04 - generated and mutated circuits respect the photonic emission constraints.
Probes (sys.monitoring) on the mutation moves of EvolutionarySolver / HybridEvolutionarySolver check, at the return of
every move performed by anybody, the emission structure of the circuit the move was given and that no 'Fixed' emission CNOT
or measure-and-reset present before the move has disappeared; the DAG invariants (vlib.mon.dag) are checked as well.
Workloads: initial circuits, long random move sequences applied directly, complete solver runs."""
import numpy as np

from .. import probes, gq
from ..mon import dag as dagmon
from ..gen.programs import wire_edges
from ..ref import graphs

ID = "C04"
LEVEL = "exploration"
RULE = ("(a) initial circuits from EvolutionarySolver.initialization for all (n_photon <= 5, n_emitter <= 3) with random emission / "
        "measurement assignments, TimeReversedSolver outputs for random graphs; (b) random sequences of 1..300 moves drawn from the seven "
        "mutation moves (uniformly and with the solvers' own probabilities) applied to such circuits; (c) complete solve() runs of "
        "EvolutionarySolver (1-3 emitters) and HybridEvolutionarySolver with small populations, selection and adaptive probabilities "
        "on/off. One evaluation = one move (or one generated circuit); distinct = distinct (circuit-before digest, move); non-trivial "
        "= the move changed the circuit")
ASSUMPTIONS = ["a 'Fixed' operation is identified by its DAG node, class and registers", "moves are observed at the return of the move "
               "functions themselves (sys.monitoring probe), so moves made inside solve() are checked like the directly driven ones"]
MOVES = ["add_emitter_one_qubit_op", "add_photon_one_qubit_op", "replace_photon_one_qubit_op", "replace_emitter_one_qubit_op",
         "add_emitter_cnot", "remove_op", "add_measurement_cnot_and_reset"]
TIMEOUT = {"quick": 900, "thorough": 7200}


def shards(tier, seed):
    out = []
    for i in range(10):
        out.append({"kind": "moves", "count": 12 if tier == "quick" else 300, "lmax": 300, "seed": seed, "shard": i})
    for i in range(6):
        out.append({"kind": "solve", "count": 3 if tier == "quick" else 40, "seed": seed, "shard": i})
    for i in range(2 if tier == "quick" else 8):
        out.append({"kind": "ats", "count": 4 if tier == "quick" else 40, "seed": seed, "shard": i})
    return out


def floors(tier):
    f = {"moves:observed": 10000, "moves:with_effect": 4000, "circuits:initial": 100, "circuits:>=100_moves": 20, "solver_runs": 15,
         "fixed_ops:tracked": 20000, "circuits:alternate_target_solver": 15, "circuits:register_index>=10": 3}
    for mv in MOVES:
        f["move:" + mv] = 200
    f["effect:add_emitter_cnot"] = 100
    f["effect:add_measurement_cnot_and_reset"] = 100
    return f


# ------------------------------------------------------------------------------------------------ structure checker
def emission_problems(circ):
    import graphiq.circuit.ops as ops
    probs = []
    regs = circ.register
    for node, data in circ.dag.nodes(data=True):
        op = data["op"]
        if len(op.q_registers) == 2 and tuple(op.q_registers_type) == ("p", "p"):
            probs.append(f"two-qubit operation {type(op).__name__} between photons {op.q_registers}")
    for i in range(len(regs["p"])):
        try:
            nodes = [e[1] for e in wire_edges(circ, "p", i)[:-1]]
        except Exception as e:
            probs.append(f"photon wire p{i} cannot be walked: {e}")
            continue
        if not nodes:
            probs.append(f"photon p{i} is never emitted")
            continue
        first = circ.dag.nodes[nodes[0]]["op"]
        if not (type(first) is ops.CNOT and first.control_type == "e" and first.target_type == "p" and first.target == i):
            probs.append(f"first operation on photon p{i} is {type(first).__name__}{tuple(zip(first.q_registers_type, first.q_registers))}, not its emission CNOT")
        for n in nodes[1:]:
            op = circ.dag.nodes[n]["op"]
            if len(op.q_registers) == 1 and isinstance(op, ops.OneQubitOperationBase):
                continue
            if isinstance(op, ops.ClassicalControlledPairOperationBase) and op.target_type == "p" and op.target == i and op.control_type == "e":
                continue
            probs.append(f"photon p{i} is touched after emission by {type(op).__name__}{tuple(zip(op.q_registers_type, op.q_registers))}")
    return probs


def fixed_set(circ):
    import graphiq.circuit.ops as ops
    out = {}
    for node, data in circ.dag.nodes(data=True):
        op = data["op"]
        if "Fixed" in op.labels and type(op) in (ops.CNOT, ops.MeasurementCNOTandReset):
            out[node] = (type(op).__name__, tuple(op.q_registers), tuple(op.q_registers_type))
    return out


def digest(circ):
    return tuple(sorted((str(n), type(d["op"]).__name__, tuple(d["op"].q_registers), tuple(getattr(d["op"], "operations", ()) and
                 [g.__name__ for g in d["op"].operations])) for n, d in circ.dag.nodes(data=True))) + tuple(sorted(map(str, circ.dag.edges(keys=True))))


class MoveMonitor:
    def __init__(self, ctx):
        from graphiq.solvers.evolutionary_solver import EvolutionarySolver
        self.ctx = ctx
        self.case = None
        self.stack = []
        self.history = []
        for mv in MOVES:
            fn = getattr(EvolutionarySolver, mv)
            probes.hook(fn, lambda fr, mv=mv: self.start(fr, mv), lambda fr, ret, mv=mv: self.ret(fr, mv), lambda fr, exc, mv=mv: self.unwind(fr, exc, mv))

    def start(self, frame, mv):
        circ = frame.f_locals.get("circuit")
        self.stack.append((circ, fixed_set(circ), digest(circ)))

    def ret(self, frame, mv):
        circ, fixed, dig = self.stack.pop()
        if self.stack:      # a move that delegates to another move (add_* -> replace_*): judged at the outer one
            return
        ctx = self.ctx
        ctx.count("moves:observed")
        ctx.count("move:" + mv)
        ctx.count("fixed_ops:tracked", len(fixed))
        d2 = digest(circ)
        effect = d2 != dig
        if effect:
            ctx.count("moves:with_effect")
            ctx.count("effect:" + mv)
        self.history.append(mv)
        ctx.case((dig, mv), effect)
        case = dict(self.case or {}, move=mv, moves_so_far=len(self.history), last_moves=self.history[-8:])
        try:
            circ.validate()
        except Exception as e:
            ctx.violation("circuit_invalid_after_move", case, {"exception": f"{type(e).__name__}: {e}"[:200]}, key=f"invalid:{mv}")
            return
        probs = dagmon.check(circ, None, deep=False)
        if probs:
            ctx.violation("dag_inconsistent_after_move", case, {"problems": probs[:4]}, key=f"dag:{mv}")
            return
        probs = emission_problems(circ)
        if probs:
            ctx.violation("emission_constraint_broken_by_move", case, {"problems": probs[:4]}, key=f"emission:{mv}:{probs[0].split(' ')[0]}")
            return
        now = fixed_set(circ)
        lost = {n: v for n, v in fixed.items() if now.get(n) != v}
        if lost:
            ctx.violation("fixed_operation_removed_by_move", case, {"lost": {str(k): v for k, v in lost.items()}}, key=f"fixed_lost:{mv}")

    def unwind(self, frame, exc, mv):
        if self.stack:
            self.stack.pop()
        if not self.stack:
            self.ctx.count("move_raised:" + mv + ":" + type(exc).__name__)
            case = dict(self.case or {}, move=mv, moves_so_far=len(self.history))
            self.ctx.violation("move_raises", case, {"exception": f"{type(exc).__name__}: {exc}"[:200]}, key=f"move_exc:{mv}:{type(exc).__name__}")


def make_solver(rng, m, n_photon, n_emitter, hybrid=False, A=None, setting=None):
    from graphiq.solvers.evolutionary_solver import EvolutionarySolver, EvolutionarySolverSetting
    from graphiq.solvers.hybrid_solvers import HybridEvolutionarySolver
    from graphiq.metrics import Infidelity
    if A is None:
        A = graphs.random_connected_graph(rng, n_photon, 0.5) if n_photon > 1 else np.zeros((1, 1), dtype=int)
    target = m["QuantumState"](gq.nx_from_adj(A), rep_type="g")
    target.convert_representation("s")
    comp = m["StabilizerCompiler"]()
    comp.measurement_determinism = 1
    setting = setting or EvolutionarySolverSetting(n_hof=3, n_stop=4, n_pop=4)
    if hybrid:
        return HybridEvolutionarySolver(target=target, metric=Infidelity(target=target), compiler=comp, solver_setting=setting)
    return EvolutionarySolver(target=target, metric=Infidelity(target=target), compiler=comp, n_emitter=n_emitter, n_photon=n_photon, solver_setting=setting)


def check_generated(circ, ctx, case, what):
    ctx.count("circuits:initial")
    ctx.case(("gen", digest(circ)), True, {"generated_by": what, "operations": [type(o).__name__ for o in circ.sequence()][:20]} if ctx.evaluations % 2000 == 0 else None)
    try:
        circ.validate()
    except Exception as e:
        ctx.violation("generated_circuit_invalid", case, {"by": what, "exception": f"{type(e).__name__}: {e}"[:200]}, key=f"gen_invalid:{what}")
        return False
    probs = dagmon.check(circ, None, deep=False) or emission_problems(circ)
    if probs:
        ctx.violation("generated_circuit_breaks_emission_constraints", case, {"by": what, "problems": probs[:4]}, key=f"gen_emission:{what}")
        return False
    return True


def run_moves(seedt, lmax, ctx, mon, m):
    from graphiq.solvers.time_reversed_solver import TimeReversedSolver
    from graphiq.metrics import Infidelity
    rng = np.random.default_rng(seedt)
    np.random.seed(int(rng.integers(2 ** 31)))
    import random as pyrandom
    pyrandom.seed(int(rng.integers(2 ** 31)))
    n_photon, n_emitter = int(rng.integers(1, 6)), int(rng.integers(1, 4))
    n_emitter = min(n_emitter, n_photon)
    case = {"kind": "moves", "seed": seedt, "lmax": lmax}
    mon.case = case
    mon.history = []
    src = int(rng.integers(3))
    if src < 2:
        solver = make_solver(rng, m, n_photon, n_emitter)
        circ = solver.initialization(solver.get_emission_assignment(n_photon, n_emitter), solver.get_measurement_assignment(n_photon, n_emitter))
        what = "EvolutionarySolver.initialization"
    else:
        if rng.random() < 0.3:
            # eleven or more photons: register indices with two digits
            A = graphs.named_graphs(int(rng.integers(11, 14)))["path"] if rng.random() < 0.5 else graphs.random_connected_graph(rng, int(rng.integers(11, 13)), 0.12)
            ctx.count("circuits:register_index>=10")
        else:
            A = graphs.random_connected_graph(rng, int(rng.integers(2, 6)), 0.5)
        solver = make_solver(rng, m, A.shape[0], 1, hybrid=True, A=A)
        trs = TimeReversedSolver(target=solver.target, metric=solver.metric, compiler=solver.compiler)
        trs.solve()
        circ = trs.result[1]
        what = "TimeReversedSolver"
    if not check_generated(circ, ctx, case, what):
        return
    L = int(rng.integers(1, lmax + 1))
    own = rng.random() < 0.5
    names = MOVES if solver.n_emitter > 1 else [mv for mv in MOVES if mv != "add_emitter_cnot"]
    for step in range(L):
        if own:
            fn = np.random.choice(list(solver.trans_probs.keys()), p=list(solver.trans_probs.values()))
        else:
            fn = getattr(solver, names[int(rng.integers(len(names)))])
        nv = ctx.n_violations
        try:
            fn(circ)
        except Exception:
            return  # reported by the probe (unwind)
        if ctx.n_violations > nv:
            return
    if L >= 100:
        ctx.count("circuits:>=100_moves")


def run_solve(seedt, ctx, mon, m):
    from graphiq.solvers.evolutionary_solver import EvolutionarySolverSetting
    rng = np.random.default_rng(seedt)
    case = {"kind": "solve", "seed": seedt}
    mon.case = case
    mon.history = []
    hybrid = bool(rng.integers(2))
    n_photon = int(rng.integers(2, 5))
    n_emitter = int(rng.integers(1, min(3, n_photon) + 1))
    setting = EvolutionarySolverSetting(n_hof=int(rng.integers(1, 5)), n_stop=int(rng.integers(3, 9)), n_pop=int(rng.integers(3, 9)),
                                        tournament_k=int(rng.integers(0, 4)), selection_active=bool(rng.integers(2)),
                                        use_adapt_probability=bool(rng.integers(2)))
    solver = make_solver(rng, m, n_photon, n_emitter, hybrid=hybrid, setting=setting)
    solver.seed(int(rng.integers(10000)))
    ctx.count("solver_runs")
    try:
        solver.solve()
    except Exception as e:
        ctx.violation("solver_raises", case, {"solver": type(solver).__name__, "exception": f"{type(e).__name__}: {e}"[:200]}, key=f"solve_exc:{type(solver).__name__}:{type(e).__name__}")
        return
    for score, c in solver.hof:
        if c is not None:
            check_generated(c, ctx, case, type(solver).__name__ + ".hof")
    if solver.result is not None and solver.result[1] is not None:
        check_generated(solver.result[1], ctx, case, type(solver).__name__ + ".result")


def run_ats(seedt, ctx, m):
    """circuits returned by the alternate-target solver must respect the emission constraints as well"""
    from graphiq.solvers.alternate_target_solver import AlternateTargetSolver, AlternateTargetSolverSetting
    import math
    rng = np.random.default_rng(seedt)
    np.random.seed(int(rng.integers(2 ** 31)))
    n = int(rng.integers(2, 6))
    A = graphs.random_connected_graph(rng, n, 0.4)
    case = {"kind": "ats", "seed": seedt}
    setting = AlternateTargetSolverSetting(n_iso_graphs=int(min(math.factorial(n), rng.integers(1, 4))), n_lc_graphs=int(rng.integers(1, 4)),
                                           lc_method=[None, "lc_with_iso", "random"][int(rng.integers(3))])
    try:
        res = AlternateTargetSolver(gq.nx_from_adj(A), solver_setting=setting, seed=int(rng.integers(100))).solve()
    except Exception as e:
        ctx.violation("solver_raises", case, {"solver": "AlternateTargetSolver", "exception": f"{type(e).__name__}: {e}"[:200]}, key=f"solve_exc:ats:{type(e).__name__}")
        return
    for circ, info in res:
        ctx.count("circuits:alternate_target_solver")
        check_generated(circ, ctx, case, "AlternateTargetSolver")


def run_shard(spec, ctx):
    m = gq.mods()
    mon = MoveMonitor(ctx)
    for i in range(spec["count"]):
        seedt = [spec["seed"], {"moves": 4, "solve": 41, "ats": 42}[spec["kind"]], spec["shard"], i]
        if spec["kind"] == "moves":
            run_moves(seedt, spec["lmax"], ctx, mon, m)
        elif spec["kind"] == "solve":
            run_solve(seedt, ctx, mon, m)
        else:
            run_ats(seedt, ctx, m)


def replay(case, ctx):
    m = gq.mods()
    mon = MoveMonitor(ctx)
    if case["kind"] == "moves":
        run_moves(case["seed"], case["lmax"], ctx, mon, m)
    elif case["kind"] == "ats":
        run_ats(case["seed"], ctx, m)
    else:
        run_solve(case["seed"], ctx, mon, m)
