"""C03 - height function equals bipartite entanglement; emitter budget is its maximum.
Boundary monitors on height_func_list / height_dict / height_max / determine_n_emitters / emitter_sorted, probe on
rref (group preserved + echelon shape), solver outputs (n_emitters, one emission per photon)."""
import numpy as np

from ..ref import pauli, dense, graphs
from ..gen import stab
from .. import gq, probes

ID = "C03"
LEVEL = "exploration"
RULE = ("stabilizer states as (x, z) generator matrices: all generating sets of all states on n<=2 (quick) / n<=3 (thorough), "
        "random states x 3 scrambled generating sets for n=4..12, all graphs on <=5 vertices, random graphs up to 40 "
        "vertices with permuted vertex orders, solver runs on all graphs with <=4 vertices and random connected graphs up "
        "to 8. distinct = distinct (x,z) digest or graph digest; non-trivial = the reference entropy profile is not all zero")
ASSUMPTIONS = ["entropy of a pure stabilizer state across A|B = rank_GF2(generators restricted to A) - |A| (checked against the "
               "von Neumann entropy of the dense reduced state for n<=6 in every run)",
               "height_dict(graph=...) uses the node insertion order of the graph (as every graph->tableau conversion in graphiq)"]
EXHAUSTIVE_SUBSPACES = {"quick": ["all generating sets of all stabilizer states on <=2 qubits", "all graphs on <=4 vertices"],
                        "thorough": ["all generating sets of all stabilizer states on <=3 qubits", "all graphs on <=5 vertices"]}


def shards(tier, seed):
    out = [{"kind": "exh12", "seed": seed, "shard": 0}]
    if tier == "thorough":
        for i in range(36):
            out.append({"kind": "exh3", "lo": i * 30, "hi": (i + 1) * 30, "seed": seed, "shard": i})
    for i in range(6 if tier == "quick" else 16):
        out.append({"kind": "random", "count": 300 if tier == "quick" else 5000, "seed": seed, "shard": i})
    out.append({"kind": "graphs_all", "nmax": 4 if tier == "quick" else 5, "seed": seed, "shard": 0})
    for i in range(3 if tier == "quick" else 12):
        out.append({"kind": "graphs_random", "count": 200 if tier == "quick" else 2500, "seed": seed, "shard": i})
    for i in range(4 if tier == "quick" else 16):
        out.append({"kind": "solver", "count": 25 if tier == "quick" else 250, "seed": seed, "shard": i,
                    "all4": i if tier == "quick" else i % 4, "nparts": 4})
    return out


def floors(tier):
    return {"height:calls": 3000, "height:nontrivial_profiles": 1500, "gauge:pairs": 800, "rref:probe_calls": 3000,
            "graph:calls": 500, "n_emitters:calls": 500, "solver:runs": 60, "solver:photons_checked": 200,
            "dense_entropy_crosscheck": 100, "emitter_sorted:calls": 400, "emitter_sorted:graphs_n>=6": 800}


class RrefProbe:
    def __init__(self, ctx):
        import graphiq.backends.stabilizer.functions.stabilizer as st
        self.ctx = ctx
        self.stack = []
        self.case = None
        probes.hook(st.rref, self.start, self.ret)

    def start(self, frame):
        t = frame.f_locals.get("tableau")
        self.stack.append(gq.stabilizer_tableau_to_ptab(t) if type(t).__name__ == "StabilizerTableau" else None)

    def ret(self, frame, ret):
        before = self.stack.pop() if self.stack else None
        if before is None or not before.is_abelian() or before.rank() != before.n:
            return
        self.ctx.count("rref:probe_calls")
        after = gq.stabilizer_tableau_to_ptab(ret)
        if not pauli.same_group_fast(before, after):
            self.ctx.violation("rref_changes_state", self.case or {}, {"before": before.labels()[:12], "after": after.labels()[:12]},
                               key="rref_state")
            return
        # echelon shape: leftmost non-trivial indices non-decreasing, at most two generators start at one column and
        # then with different Paulis there
        left = []
        for i in range(after.m):
            nz = np.nonzero(after.X[i] | after.Z[i])[0]
            left.append(int(nz[0]))
        if any(left[i] > left[i + 1] for i in range(len(left) - 1)):
            self.ctx.violation("rref_not_echelon", self.case or {}, {"after": after.labels()[:12], "leftmost": left}, key="rref_shape")
            return
        for c in set(left):
            rows = [i for i in range(after.m) if left[i] == c]
            if len(rows) > 2 or (len(rows) == 2 and (after.X[rows[0], c], after.Z[rows[0], c]) == (after.X[rows[1], c], after.Z[rows[1], c])):
                self.ctx.violation("rref_not_echelon", self.case or {}, {"after": after.labels()[:12], "column": int(c)}, key="rref_shape")
                return


def ref_profile(t):
    return [t.entropy_cut(range(k + 1)) for k in range(t.n)]


def run_shard(spec, ctx):
    k = spec["kind"]
    probe = RrefProbe(ctx)
    rng = np.random.default_rng([spec["seed"], sum(map(ord, k)), spec["shard"]])
    if k == "exh12":
        for n in (1, 2):
            for s in stab.all_states(n):
                prof = ref_profile(s)
                for p in stab.all_presentations(s):
                    check_state(p, prof, ctx, probe)
    elif k == "exh3":
        states = stab.all_states(3)
        for i in range(spec["lo"], min(spec["hi"], len(states))):
            prof = ref_profile(states[i])
            for p in stab.all_presentations(states[i]):
                check_state(p, prof, ctx, probe, light=True)
    elif k == "random":
        for i in range(spec["count"]):
            n = int(rng.integers(4, 13))
            t = pauli.random_stabilizer_group(rng, n, length=int(rng.integers(n, 6 * n)))
            prof = ref_profile(t)
            if n <= 6 and i % 4 == 0:
                rho = dense.projector_of_group(t)
                for kk in range(n):
                    e = dense.entropy_bits(dense.partial_trace(rho, list(range(kk + 1)), n))
                    assert abs(e - prof[kk]) < 1e-6, "oracle disagreement: GF(2) entropy vs dense entropy"
                ctx.count("dense_entropy_crosscheck")
            for _ in range(3):
                ctx.count("gauge:pairs")
                check_state(pauli.scramble_generators(rng, t), prof, ctx, probe)
    elif k == "graphs_all":
        for n in range(1, spec["nmax"] + 1):
            for code in range(1 << (n * (n - 1) // 2)):
                check_graph(graphs.code_to_adj(code, n), None, ctx, probe)
    elif k == "graphs_random":
        for i in range(spec["count"]):
            n = int(rng.integers(2, 41))
            A = graphs.random_graph(rng, n, [0.05, 0.1, 0.3, 0.5, 0.8][i % 5])
            order = [int(v) for v in rng.permutation(n)] if i % 2 else None
            check_graph(A, order, ctx, probe)
        # emitter_sorted on small batches
        from graphiq.utils.relabel_module import emitter_sorted
        for i in range(max(150, spec["count"] // 4)):
            n = int(rng.integers(3, 13))
            adjs = [graphs.random_graph(rng, n, [0.5, 0.3, 0.7][i % 3]) for _ in range(int(rng.integers(2, 7)))]
            if i % 4 == 0:
                # relabellings of one graph (what iso_finder hands over): the count depends on the order, the edge count does not
                adjs = [adjs[0][np.ix_(pm, pm)] for pm in (rng.permutation(n) for _ in range(len(adjs)))]
            case = {"kind": "emitter_sorted", "adjs": [a.tolist() for a in adjs]}
            ctx.case(("es",) + tuple(a.tobytes() for a in adjs), True)
            ctx.count("emitter_sorted:calls")
            if n >= 6:
                ctx.count("emitter_sorted:graphs_n>=6", len(adjs))
            try:
                res = emitter_sorted(np.array(adjs))
            except Exception as e:
                ctx.violation("emitter_sorted_raises", case, {"exception": f"{type(e).__name__}: {e}"[:300]}, key="es_exc")
                continue
            vals = [int(v) for _, v in res]
            refs = [max(graphs.cut_rank_profile(np.array(a))) for a, _ in res]
            if vals != refs or vals != sorted(vals) or sorted(a.tobytes() for a, _ in res) != sorted(np.array(a).astype(res[0][0].dtype).tobytes() for a in adjs):
                ctx.violation("emitter_sorted_wrong", case, {"reported": vals, "reference": refs}, key="es_wrong")
    elif k == "solver":
        run_solver(spec, ctx, rng, probe)


def replay(case, ctx):
    probe = RrefProbe(ctx)
    if case["kind"] == "state":
        t = pauli.PTab.from_labels(case["labels"])
        check_state(t, ref_profile(t), ctx, probe)
    elif case["kind"] == "graph":
        check_graph(np.array(case["adj"]), case.get("order"), ctx, probe)
    elif case["kind"] == "solver":
        solve_one(np.array(case["adj"]), ctx, probe)


def check_state(t, prof, ctx, probe, light=False):
    import graphiq.backends.stabilizer.functions.height as height
    from graphiq.solvers.time_reversed_solver import TimeReversedSolver
    from graphiq.backends.stabilizer.functions.stabilizer import rref
    x, z, r, _ = t.to_graphiq()
    case = {"kind": "state", "labels": t.labels()}
    probe.case = case
    ctx.case((x.tobytes(), z.tobytes()), any(prof), {"generators": t.labels(), "entropy_profile": prof} if ctx.evaluations % 4000 == 0 else None)
    if any(prof):
        ctx.count("height:nontrivial_profiles")
    try:
        got = [int(v) for v in height.height_func_list(x.copy(), z.copy())]
        ctx.count("height:calls")
    except Exception as e:
        ctx.violation("height_raises", case, {"exception": f"{type(e).__name__}: {e}"[:300]}, key="height_exc")
        return
    if got != prof:
        ctx.violation("height_not_entropy", case, {"height": got, "entropy": prof}, key="height_value")
    # single-position entry point, asked on the SAME two array objects for every state of this size: the arrays are
    # overwritten in place between states (a result remembered per array identity shows here)
    shared = probe.__dict__.setdefault("shared_xz", {})
    if t.n not in shared:
        shared[t.n] = (np.zeros_like(x), np.zeros_like(z))
    else:
        ctx.count("height_function:reused_arrays_after_inplace_edit")
    xb, zb = shared[t.n]
    xb[...] = x
    zb[...] = z
    try:
        ks = range(t.n) if t.n <= 8 else sorted({0, t.n - 1, t.n // 2, (ctx.evaluations * 7) % t.n})
        one = {k: int(height.height_function(xb, zb, k)) for k in ks}
        ctx.count("height_function:calls", len(one))
        if any(one[k] != prof[k] for k in one):
            ctx.violation("height_function_not_entropy", case, {"height_function": one, "entropy": prof}, key="height_function_value")
        if not (np.array_equal(xb, x) and np.array_equal(zb, z)):
            ctx.count("height_function:edits_its_arguments")
            xb[...] = x
            zb[...] = z
    except Exception as e:
        ctx.violation("height_raises", case, {"exception": f"{type(e).__name__}: {e}"[:300], "entry": "height_function"}, key="height_exc")
    if light:
        return
    try:
        hd = height.height_dict(x_matrix=x.copy(), z_matrix=z.copy())
        hm = int(height.height_max(x_matrix=x.copy(), z_matrix=z.copy()))
        exp = {-1: 0, **{i: prof[i] for i in range(t.n)}}
        if {int(a): int(b) for a, b in hd.items()} != exp or hm != max([0] + prof):
            ctx.violation("height_dict_or_max_wrong", case, {"dict": {int(a): int(b) for a, b in hd.items()}, "max": hm, "entropy": prof},
                          key="height_dict")
        ne = int(TimeReversedSolver.determine_n_emitters(gq.ptab_to_stabilizer_tableau(t)))
        ctx.count("n_emitters:calls")
        if ne != max(prof):
            ctx.violation("n_emitters_not_max_entropy", case, {"n_emitters": ne, "entropy": prof}, key="n_emitters")
        rref(gq.ptab_to_stabilizer_tableau(t))  # signed tableau through the probe
    except Exception as e:
        ctx.violation("height_helpers_raise", case, {"exception": f"{type(e).__name__}: {e}"[:300]}, key="height_exc")


def check_graph(A, order, ctx, probe):
    import graphiq.backends.stabilizer.functions.height as height
    n = A.shape[0]
    case = {"kind": "graph", "adj": A.tolist(), "order": order}
    probe.case = case
    prof = graphs.cut_rank_profile(A)
    g = gq.nx_from_adj(A, order)
    ctx.case(("g", A.tobytes(), tuple(order) if order else None), any(prof), {"adjacency": A.tolist(), "cut_rank_profile": prof} if ctx.evaluations % 600 == 0 else None)
    ctx.count("graph:calls")
    try:
        hd = {int(a): int(b) for a, b in height.height_dict(graph=g).items()}
        hm = int(height.height_max(graph=g))
        hl = [int(v) for v in height.height_func_list(np.eye(n), A.astype(float))]
    except Exception as e:
        ctx.violation("height_graph_raises", case, {"exception": f"{type(e).__name__}: {e}"[:300]}, key="height_exc")
        return
    exp = {-1: 0, **{i: prof[i] for i in range(n)}}
    if hd != exp or hm != max([0] + prof) or hl != prof:
        ctx.violation("graph_height_not_cut_rank", case, {"dict": hd, "list": hl, "max": hm, "cut_rank": prof}, key="graph_height")


def run_solver(spec, ctx, rng, probe):
    todo = []
    codes4 = [(n, c) for n in range(1, 5) for c in range(1 << (n * (n - 1) // 2))]
    for j, (n, c) in enumerate(codes4):
        if j % spec["nparts"] == spec["all4"]:
            todo.append(graphs.code_to_adj(c, n))
    for i in range(spec["count"]):
        n = int(rng.integers(3, 9))
        A = graphs.random_connected_graph(rng, n, [0.1, 0.3, 0.6][i % 3])
        if i % 2:
            A = graphs.relabel(A, [int(v) for v in rng.permutation(n)])
        todo.append(A)
    for A in todo:
        solve_one(A, ctx, probe)


def solve_one(A, ctx, probe):
    from graphiq.solvers.time_reversed_solver import TimeReversedSolver
    from graphiq.state import QuantumState
    from graphiq.metrics import Infidelity
    from graphiq.backends.stabilizer.compiler import StabilizerCompiler
    import graphiq.circuit.ops as ops
    n = A.shape[0]
    case = {"kind": "solver", "adj": A.tolist()}
    probe.case = case
    prof = graphs.cut_rank_profile(A)
    isolated = bool((A.sum(axis=0) == 0).any())
    ctx.case(("solve", A.tobytes()), True, {"target_adjacency": A.tolist(), "cut_rank_profile": prof} if ctx.evaluations % 40 == 0 else None)
    g = gq.nx_from_adj(A)
    try:
        target = QuantumState(g, rep_type="g")
        comp = StabilizerCompiler()
        comp.measurement_determinism = 1
        solver = TimeReversedSolver(target=target, metric=Infidelity(target=target), compiler=comp)
        solver.solve()
        score, circ = solver.result
    except Exception as e:
        import traceback
        tb = traceback.extract_tb(e.__traceback__)
        where = tb[-1].name if tb else "?"
        key = "trs-isolated-vertex" if (isolated and isinstance(e, IndexError) and where == "_add_photon_absorption") else f"solver_exc:{type(e).__name__}"
        ctx.violation("solver_raises", case, {"exception": f"{type(e).__name__}: {e}"[:300], "raised_in": where,
                                              "target_has_isolated_vertex": isolated}, key=key)
        return
    ctx.count("solver:runs")
    if circ.n_emitters != max([0] + prof) or solver.n_emitter != max([0] + prof):
        ctx.violation("solver_emitter_count_not_minimal", case, {"n_emitters": circ.n_emitters, "cut_rank_profile": prof}, key="solver_emitters")
    emissions = {p: 0 for p in range(n)}
    for op in circ.sequence(unwrapped=True):
        if type(op) is ops.CNOT and op.control_type == "e" and op.target_type == "p":
            emissions[op.target] += 1
    ctx.count("solver:photons_checked", n)
    if any(v != 1 for v in emissions.values()) or circ.n_photons != n:
        ctx.violation("photon_not_emitted_exactly_once", case, {"emissions": emissions}, key="solver_emissions")
