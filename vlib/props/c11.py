"""C11 - the synthesised inverse circuit prepares exactly the given stabilizer state.
Boundary monitors on inverse_circuit, clifford_from_stabilizer, get_clifford_tableau_from_graph,
CliffordTableau(StabilizerTableau), run_circuit(reverse=True); oracle = vlib.ref.pauli (all n) + dense (n<=5)."""
import numpy as np

from ..ref import dense, pauli, graphs
from ..gen import stab
from .. import gq

ID = "C11"
LEVEL = "exploration"
RULE = ("stabilizer tableaux built from oracle-generated states: all ordered generating sets (with their signs) of all "
        "stabilizer states on n<=2 (quick) / n<=3 (thorough: 6+360+181440 presentations), sampled n=3 presentations, random and "
        "Y/sign-heavy states with scrambled generating sets for n=4..12, all labelled graphs on <=5 vertices (thorough; <=4 "
        "quick) and random graphs up to 30 vertices. distinct = distinct tableau digest; non-trivial = not the literal "
        "|0..0> tableau")
ASSUMPTIONS = ["oracle vlib.ref.pauli conjugation rules (cross-checked against dense matrices in the self-test)"]
EXHAUSTIVE_SUBSPACES = {
    "quick": ["all 366 ordered generating sets of the 66 stabilizer states on 1 and 2 qubits", "all labelled graphs on <=4 vertices"],
    "thorough": ["all 181806 ordered generating sets of the 1146 stabilizer states on <=3 qubits", "all labelled graphs on <=5 vertices"]}

INV = {"H": "h", "P": "sdg", "P_dag": "s", "X": "x", "Y": "y", "Z": "z", "CNOT": "cnot", "CZ": "cz", "I": "i"}
FWD = {"H": "h", "P": "s", "P_dag": "sdg", "X": "x", "Y": "y", "Z": "z", "CNOT": "cnot", "CZ": "cz", "I": "i"}


def shards(tier, seed):
    out = [{"kind": "exh12", "seed": seed, "shard": 0}]
    if tier == "thorough":
        for i in range(40):
            out.append({"kind": "exh3", "lo": i * 27, "hi": (i + 1) * 27, "seed": seed, "shard": i})
    else:
        for i in range(5):
            out.append({"kind": "sample3", "count": 1000, "seed": seed, "shard": i})
    for i in range(8 if tier == "quick" else 16):
        out.append({"kind": "random", "count": 250 if tier == "quick" else 4000, "seed": seed, "shard": i, "nmax": 12})
    for i in range(2 if tier == "quick" else 8):
        out.append({"kind": "words", "count": 400 if tier == "quick" else 5000, "seed": seed, "shard": i})
    out.append({"kind": "graphs_all", "nmax": 4 if tier == "quick" else 5, "seed": seed, "shard": 0})
    for i in range(2 if tier == "quick" else 8):
        out.append({"kind": "graphs_random", "count": 150 if tier == "quick" else 1500, "seed": seed, "shard": i})
    return out


def floors(tier):
    return {"inverse:calls": 7000 if tier == "quick" else 200000, "clifford_from_stabilizer:calls": 2000, "inverse:n>=13": 80, "graph_tableau:asked_again_after_use": 300,
            "graph_tableau:calls": 300, "inverse:with_Y_entries": 1000, "inverse:with_negative_sign": 1000,
            "inverse:circuit_has_P": 500, "reverse_run:calls": 2000, "run_circuit:words": 700, "run_circuit:reversed_words_with_P_dag": 150, "dense_crosscheck": 200, "inverse:low_sign_presentations": 300}


def run_shard(spec, ctx):
    k = spec["kind"]
    rng = np.random.default_rng([spec["seed"], sum(map(ord, k)), spec["shard"]])
    if k == "exh12":
        for n in (1, 2):
            for s in stab.all_states(n):
                for p in stab.all_presentations(s):
                    check_state(p, ctx, full=True)
    elif k == "exh3":
        states = stab.all_states(3)
        for i in range(spec["lo"], min(spec["hi"], len(states))):
            for j, p in enumerate(stab.all_presentations(states[i])):
                check_state(p, ctx, full=(j % 24 == 0))
    elif k == "sample3":
        states = stab.all_states(3)
        for _ in range(spec["count"]):
            s = states[int(rng.integers(len(states)))]
            check_state(stab.random_presentation(rng, s), ctx, full=True)
    elif k == "words":
        for i in range(spec["count"]):
            check_word(int(rng.integers(1, 9)), int(rng.integers(2 ** 31)), ctx)
    elif k == "random":
        for i in range(spec["count"]):
            n = int(rng.integers(4, spec["nmax"] + 1))
            if i % 20 == 9:
                n = int(rng.integers(13, 49))
                ctx.count("inverse:n>=13")
            t = stab.y_heavy_state(rng, n) if i % 2 else pauli.random_stabilizer_group(rng, n)
            if i % 4 == 3:
                t = stab.low_sign_presentation(rng, t)
                ctx.count("inverse:low_sign_presentations")
            check_state(t, ctx, full=True)
    elif k == "graphs_all":
        for n in range(1, spec["nmax"] + 1):
            for code in range(1 << (n * (n - 1) // 2)):
                check_graph(graphs.code_to_adj(code, n), None, ctx)
    elif k == "graphs_random":
        for i in range(spec["count"]):
            n = int(rng.integers(2, 31))
            A = graphs.random_graph(rng, n, [0.1, 0.3, 0.5, 0.8][i % 4])
            order = list(rng.permutation(n)) if i % 3 == 0 else None
            check_graph(A, order, ctx)


def replay(case, ctx):
    if case["kind"] == "word":
        check_word(case["n"], case["wseed"], ctx)
    elif case["kind"] == "state":
        check_state(pauli.PTab.from_labels(case["labels"]), ctx, full=True)
    else:
        check_graph(np.array(case["adj"]), case.get("order"), ctx)


def _valid_circ(circ, n):
    for g in circ:
        if g[0] not in FWD or not all(isinstance(q, (int, np.integer)) and 0 <= q < n for q in g[1:]):
            return False
        if g[0] in ("CNOT", "CZ") and (len(g) != 3 or g[1] == g[2]):
            return False
    return True


def _malformed_calls(n, ctx):
    """a caller's earlier mistakes in the same process: the synthesis functions are handed tableaux of the same size whose
    generators do not commute (not stabilizer states; whatever comes back is discarded, exceptions included). What the library
    answers for valid states afterwards must not depend on it."""
    import graphiq.backends.stabilizer.functions.stabilizer as st
    from graphiq.backends.stabilizer.tableau import StabilizerTableau
    rng = np.random.default_rng([11, n, ctx.evaluations])
    for rep in range(2):
        x = rng.integers(0, 2, (n, n))
        z = rng.integers(0, 2, (n, n))
        ph = rng.integers(0, 2, n)
        for f in (lambda tb: st.canonical_form(tb), lambda tb: st.inverse_circuit(tb), lambda tb: st.rref(tb),
                  lambda tb: [st.tab_row_sum(tb, int(i), int(j)) for i, j in rng.integers(0, n, (4, 2)) if i != j]):
            try:
                f(StabilizerTableau([x.copy(), z.copy()], ph.copy()))
                ctx.count("malformed:calls")
            except Exception:
                ctx.count("malformed:calls")
                ctx.count("malformed:raised")


def check_state(a, ctx, full=True):
    from graphiq.backends.stabilizer.functions.stabilizer import inverse_circuit
    from graphiq.backends.stabilizer.functions.rep_conversion import clifford_from_stabilizer
    from graphiq.backends.stabilizer.clifford_tableau import CliffordTableau
    import graphiq.backends.stabilizer.functions.transformation as transform
    n = a.n
    case = {"kind": "state", "labels": a.labels()}
    x, z, r, _ = a.to_graphiq()
    trivial = (not x.any()) and np.array_equal(z, np.eye(n, dtype=int)) and not r.any()
    ctx.case((x.tobytes(), z.tobytes(), r.tobytes()), not trivial, {"generators": a.labels()} if ctx.evaluations % 5000 == 0 else None)
    if (x & z).any():
        ctx.count("inverse:with_Y_entries")
    if r.any():
        ctx.count("inverse:with_negative_sign")
    zero = pauli.PTab.zero_state(n)
    if ctx.evaluations % 5 == 0 and n <= 12:
        _malformed_calls(n, ctx)
    t = gq.ptab_to_stabilizer_tableau(a)
    try:
        t2, circ = inverse_circuit(t)
        ctx.count("inverse:calls")
    except Exception as e:
        ctx.violation("inverse_circuit_raises", case, {"exception": f"{type(e).__name__}: {e}"[:300]}, key="inv_exc")
        return
    circ = [tuple(g) for g in circ]
    if any(g[0] in ("P", "P_dag") for g in circ):
        ctx.count("inverse:circuit_has_P")
    det = {"generators": a.labels(), "circuit": [list(map(str, g)) for g in circ][:60]}
    if not _valid_circ(circ, n):
        ctx.violation("inverse_circuit_malformed", case, det, key="inv_malformed")
        return
    if t2.x_matrix.any() or not np.array_equal(t2.z_matrix, np.eye(n, dtype=int)) or np.asarray(t2.phase).any():
        ctx.violation("returned_tableau_not_zero_state", case, {**det, "returned": t2.to_labels(), "phase": np.asarray(t2.phase).tolist()},
                      key="inv_tableau")
    fwd = a.copy()
    for g in circ:
        fwd.apply(FWD[g[0]], *[int(q) for q in g[1:]])
    if not fwd.same_group(zero):
        ctx.violation("circuit_does_not_map_state_to_zero", case, {**det, "image": fwd.labels()}, key="inv_forward")
    back = zero.copy()
    for g in reversed(circ):
        back.apply(INV[g[0]], *[int(q) for q in g[1:]])
    if not back.same_group(a):
        ctx.violation("reverse_circuit_does_not_prepare_state", case, {**det, "prepared": back.labels()}, key="inv_backward")
    if not full:
        return
    # graphiq's own reverse execution (P <-> P_dag swap lives there)
    try:
        ct = transform.run_circuit(CliffordTableau(n), list(circ), reverse=True)
        ctx.count("reverse_run:calls")
        probs = pauli.check_clifford_tableau(*gq.clifford_snapshot(ct))
        if probs:
            ctx.violation("reverse_run_invalid_tableau", case, {**det, "problems": probs}, key="rev_invalid")
        elif not gq.clifford_stab_ptab(ct).same_group(a):
            ctx.violation("run_circuit_reverse_wrong_state", case, {**det, "got": gq.clifford_stab_ptab(ct).labels()}, key="rev_state")
    except Exception as e:
        ctx.violation("run_circuit_reverse_raises", case, {"exception": f"{type(e).__name__}: {e}"[:300]}, key="rev_exc")
    for name, build in (("clifford_from_stabilizer", lambda: clifford_from_stabilizer(gq.ptab_to_stabilizer_tableau(a))),
                        ("CliffordTableau(StabilizerTableau)", lambda: CliffordTableau(gq.ptab_to_stabilizer_tableau(a)))):
        try:
            ct = build()
            ctx.count("clifford_from_stabilizer:calls")
        except Exception as e:
            ctx.violation("clifford_from_stabilizer_raises", case, {"via": name, "exception": f"{type(e).__name__}: {e}"[:300]}, key="cfs_exc")
            continue
        probs = pauli.check_clifford_tableau(*gq.clifford_snapshot(ct))
        if probs:
            ctx.violation("clifford_tableau_invalid", case, {"via": name, "problems": probs, **det}, key="cfs_invalid")
        elif not gq.clifford_stab_ptab(ct).same_group(a):
            ctx.violation("clifford_tableau_wrong_state", case, {"via": name, "got": gq.clifford_stab_ptab(ct).labels(), **det}, key="cfs_state")
        elif n <= 5 and ctx.counters.get("clifford_from_stabilizer:calls", 0) % 9 == 0:
            ctx.count("dense_crosscheck")
            if not np.allclose(dense.projector_of_group(gq.clifford_stab_ptab(ct)), dense.projector_of_group(a), atol=1e-9, rtol=0):
                ctx.violation("clifford_tableau_wrong_state_dense", case, det, key="cfs_state")


def check_word(n, wseed, ctx):
    """run_circuit over its whole vocabulary, forward and as the inverse (reverse=True: reversed order, P <-> P_dag), through the
    module function and through Stabilizer.apply_circuit, from a random start state"""
    import graphiq.backends.stabilizer.functions.transformation as transform
    from graphiq.backends.stabilizer.state import Stabilizer
    rng = np.random.default_rng(wseed)
    start = pauli.random_stabilizer_group(rng, n)
    L = int(rng.integers(1, 12))
    word = []
    for _ in range(L):
        g = ["H", "P", "P_dag", "P_dag", "X", "Y", "Z", "I", "CNOT", "CZ"][int(rng.integers(10))]
        if g in ("CNOT", "CZ"):
            if n < 2:
                continue
            a_, b_ = (int(v) for v in rng.choice(n, 2, replace=False))
            word.append((g, a_, b_))
        else:
            word.append((g, int(rng.integers(n))))
    rev = bool(rng.integers(2))
    via = ["run_circuit", "Stabilizer.apply_circuit"][int(rng.integers(2))]
    case = {"kind": "word", "n": n, "wseed": wseed}
    ctx.case(("word", n, wseed), True, {"start": start.labels(), "word": [list(g) for g in word], "reverse": rev, "via": via} if ctx.evaluations % 800 == 0 else None)
    ctx.count("run_circuit:words")
    if rev and any(g[0] == "P_dag" for g in word):
        ctx.count("run_circuit:reversed_words_with_P_dag")
    exp = start.copy()
    for g in (reversed(word) if rev else word):
        nm = (INV if rev else FWD)[g[0]]
        if nm != "i":
            exp.apply(nm, *[int(q) for q in g[1:]])
    try:
        t0 = gq.ptab_to_clifford(start, rng, random_destab_phase=True)
        if via == "run_circuit":
            t1 = transform.run_circuit(t0, [tuple(g) for g in word], reverse=rev)
        else:
            st = Stabilizer(t0)
            st.apply_circuit([tuple(g) for g in word], reverse=rev)
            t1 = st.tableau
    except Exception as e:
        ctx.violation("run_circuit_raises", case, {"exception": f"{type(e).__name__}: {e}"[:300], "word": [list(g) for g in word], "reverse": rev, "via": via}, key="word_exc")
        return
    probs = pauli.check_clifford_tableau(*gq.clifford_snapshot(t1))
    if probs:
        ctx.violation("run_circuit_invalid_tableau", case, {"problems": probs[:3], "word": [list(g) for g in word], "reverse": rev, "via": via}, key="word_invalid")
    elif not gq.clifford_stab_ptab(t1).same_group(exp):
        ctx.violation("run_circuit_wrong_state", case, {"word": [list(g) for g in word], "reverse": rev, "via": via, "start": start.labels(),
                                                        "got": gq.clifford_stab_ptab(t1).labels()[:10], "expected": exp.labels()[:10]},
                      key="word_state:" + ("reverse" if rev else "forward"))


def check_graph(A, order, ctx):
    from graphiq.backends.stabilizer.functions.rep_conversion import (get_clifford_tableau_from_graph,
                                                                     get_stabilizer_tableau_from_graph)
    n = A.shape[0]
    case = {"kind": "graph", "adj": A.tolist(), "order": None if order is None else [int(o) for o in order]}
    # `order`: node labels inserted in that order; qubit i = i-th inserted node, adjacency A is in insertion order
    g = gq.nx_from_adj(A, order)
    ctx.case(("graph", A.tobytes(), tuple(order) if order is not None else None), A.any(),
             {"adjacency": A.tolist()} if ctx.evaluations % 500 == 0 else None)
    X, Z, K = graphs.graph_stabilizers(A)
    ref = pauli.PTab(X, Z, K)
    try:
        st = get_stabilizer_tableau_from_graph(g)
        ct = get_clifford_tableau_from_graph(g)
        ctx.count("graph_tableau:calls")
    except Exception as e:
        ctx.violation("graph_tableau_raises", case, {"exception": f"{type(e).__name__}: {e}"[:300]}, key="graph_exc")
        return
    if not gq.stabilizer_tableau_to_ptab(st).same_group(ref):
        ctx.violation("stabilizer_tableau_from_graph_wrong", case, {"got": st.to_labels()}, key="graph_stab")
    probs = pauli.check_clifford_tableau(*gq.clifford_snapshot(ct))
    if probs:
        ctx.violation("clifford_from_graph_invalid", case, {"problems": probs}, key="graph_invalid")
    elif not gq.clifford_stab_ptab(ct).same_group(ref):
        ctx.violation("clifford_from_graph_wrong_state", case, {"got": gq.clifford_stab_ptab(ct).labels()}, key="graph_state")
    elif n <= 5:
        ctx.count("dense_crosscheck")
        if not np.allclose(dense.projector_of_group(gq.clifford_stab_ptab(ct)), dense.ket2dm(dense.graph_state_vec(A)), atol=1e-9, rtol=0):
            ctx.violation("clifford_from_graph_wrong_state_dense", case, {}, key="graph_state")
    # ---- the tableau handed out is the caller's: it is used as a simulation state (gates act in place), then the same graph
    # (same object, and an equal fresh one) is asked for again - the answer must still be the graph state
    import graphiq.backends.stabilizer.functions.transformation as tr
    try:
        q = int(A.sum()) % n
        tr.hadamard_gate(ct, q)
        tr.phase_gate(ct, q)
        if n > 1:
            tr.cnot_gate(ct, q, (q + 1) % n)
        for which, gg in (("same graph object", g), ("equal graph, new object", gq.nx_from_adj(A, order))):
            ct2 = get_clifford_tableau_from_graph(gg)
            ctx.count("graph_tableau:asked_again_after_use")
            probs = pauli.check_clifford_tableau(*gq.clifford_snapshot(ct2))
            if probs or not gq.clifford_stab_ptab(ct2).same_group(ref):
                ctx.violation("clifford_from_graph_depends_on_earlier_calls", case, {"asked_with": which, "problems": probs[:2],
                                                                                      "got": gq.clifford_stab_ptab(ct2).labels()[:8]}, key="graph_history")
                break
    except Exception as e:
        ctx.violation("graph_tableau_raises", case, {"exception": f"{type(e).__name__}: {e}"[:300], "step": "asked again after use"}, key="graph_exc")
