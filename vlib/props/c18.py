"""C18 - circuit cost metrics equal the quantities they are defined as.
Boundary monitors on the nine metric classes' evaluate() (default and explicit penalty) and on depth / register_depth;
oracle = vlib.ref.costs on the harness' own operation lists."""
import numpy as np

from ..gen import programs
from ..gen.programs import Program, make_gq_op
from ..ref import costs

ID = "C18"
LEVEL = "exploration"
RULE = ("random circuits built through add / insert_at: (A) over the vocabulary the solvers emit {I,H,P,Pdag,X,Y,Z, wrappers, CNOT with an "
        "emitter control, measure-CNOT-and-reset emitter->photon} with >= 1 emitter - all nine metrics judged; (B) over the full alphabet "
        "incl. CZ, Z-measurement and classically controlled gates - only depth, per-register depth, emitter count and emitter-emitter "
        "CNOT count judged (the documentation does not determine whether CZ is a 'unitary' or a Z-measurement a 'measurement'). Circuits "
        "lacking a given operation class altogether are included. Each metric is evaluated with its default construction and with an "
        "explicit penalty x -> 3x+1. distinct = distinct (program, metric, penalty) digest; non-trivial = the circuit has >= 3 operations")
ASSUMPTIONS = ["definitions as in DESIGN.md C18 (docstrings of graphiq/metrics.py read together with circuit.depth / reg_gate_history)",
               "effective depth and register depth are only evaluated on circuits with <= 26 nodes (graphiq's recursion is exponential)"]
METRICS = ["CircuitDepth", "CircuitEmitterCount", "CircuitCnotCount", "CircuitUnitaryCount", "CircuitMeasureCount",
           "CircuitMaxEmitDepth", "CircuitMaxEmitResetDepth", "CircuitMaxEmitEffDepth", "register_depth"]
SOLVER_ALPHABET = programs.ONEQ + ["W", "W", "CNOT", "CNOT", "MR"]


def shards(tier, seed):
    return [{"seed": seed, "shard": i, "count": 40 if tier == "quick" else 1200} for i in range(16)]


def floors(tier):
    f = {"programs:A": 300, "programs:B": 150, "programs:no_MR": 50, "programs:no_ee_cnot": 50, "programs:no_one_qubit_gate": 10,
         "programs:with_wrappers_and_identities": 100, "programs:re_evaluated_after_removal": 200, "programs:A_with_Z_measurement": 40, "programs:scored_by_reused_metric_objects": 150, "programs:re_evaluated_after_replacement": 100}
    for m in METRICS:
        f["metric:" + m] = 300
    f["metric:Metrics_container"] = 300
    return f


def gen_A(rng, allow_big=True):
    """solver vocabulary, >=1 emitter"""
    from graphiq.circuit.circuit_dag import CircuitDAG
    n_e, n_p = int(rng.integers(1, 4)), int(rng.integers(0, 4))
    if allow_big and rng.random() < 0.08:
        n_e, n_p = [(int(rng.integers(11, 13)), int(rng.integers(0, 3))), (int(rng.integers(1, 3)), int(rng.integers(11, 13)))][int(rng.integers(2))]   # two-digit register indices
    prog = Program(n_e, n_p, 1)
    circ = CircuitDAG(n_emitter=n_e, n_photon=n_p, n_classical=1)
    L = int(rng.integers(0, 16))
    alphabet = SOLVER_ALPHABET if rng.random() < 0.8 else [["CNOT"], ["MR", "CNOT"], ["H", "I"], ["W"]][int(rng.integers(4))]
    if rng.random() < 0.3:
        alphabet = list(alphabet) + ["MZ"]      # a Z measurement is certainly not a unitary gate (the measurement count is then not judged)
    for _ in range(L):
        k = alphabet[int(rng.integers(len(alphabet)))]
        em = [("e", i) for i in range(n_e)]
        ph = [("p", i) for i in range(n_p)]
        if k == "CNOT":
            tg = [w for w in em + ph]
            c = em[int(rng.integers(len(em)))]
            tg = [w for w in tg if w != c]
            if not tg:
                continue
            op = prog.new_op("CNOT", [c, tg[int(rng.integers(len(tg)))]])
        elif k == "MR":
            if not ph:
                continue
            op = prog.new_op("MR", [em[int(rng.integers(len(em)))], ph[int(rng.integers(len(ph)))]], c=0)
        elif k == "MZ":
            op = prog.new_op("MZ", [(em + ph)[int(rng.integers(n_e + n_p))]], c=0)
        elif k == "W":
            pool = programs.ONEQ
            op = prog.new_op("W", [(em + ph)[int(rng.integers(n_e + n_p))]], gates=[pool[int(rng.integers(7))] for _ in range(int(rng.integers(1, 4)))])
        else:
            op = prog.new_op(k, [(em + ph)[int(rng.integers(n_e + n_p))]])
        programs.place(prog, circ, op, rng, p_insert=0.3)
    return prog, circ


def run_shard(spec, ctx):
    rng = np.random.default_rng([spec["seed"], 18, spec["shard"]])
    for i in range(spec["count"]):
        pseed = [spec["seed"], 18, spec["shard"], i]
        check_program(pseed, ctx)


def replay(case, ctx):
    check_program(case["pseed"], ctx)


def check_program(pseed, ctx):
    import graphiq.metrics as gm
    rng = np.random.default_rng(pseed)
    klass = "A" if rng.random() < 0.7 else "B"
    if klass == "A":
        prog, circ = gen_A(rng)
    else:
        prog, circ = programs.random_program(rng, int(rng.integers(0, 3)) , int(rng.integers(1, 4)), int(rng.integers(1, 3)), int(rng.integers(0, 14)), adversarial=False)
    case = {"pseed": pseed, "class": klass, "program": prog.text(), "registers": [prog.n_e, prog.n_p, prog.n_c]}
    # metric objects live as long as a solver does: half of the programs are scored by objects that have scored another
    # circuit before (and all are scored again by the same objects after the circuit was edited)
    pool = {}
    if rng.random() < 0.5:
        dprog, dcirc = gen_A(np.random.default_rng([*pseed, 1]), allow_big=False)
        pool["decoy"] = dcirc
        ctx.count("programs:scored_by_reused_metric_objects")
    check_metrics(prog, circ, klass, rng, ctx, case, stage=0, pool=pool)


def check_metrics(prog, circ, klass, rng, ctx, case, stage, pool=None):
    pool = {} if pool is None else pool
    import graphiq.metrics as gm
    kinds = [o.kind for o in prog.live_ops()]
    if stage == 0:
        ctx.count("programs:" + klass)
    if "MR" not in kinds:
        ctx.count("programs:no_MR")
    if costs.emitter_cnot_count(prog) == 0:
        ctx.count("programs:no_ee_cnot")
    if not any(k in programs.ONEQ or k == "W" for k in kinds):
        ctx.count("programs:no_one_qubit_gate")
    if "W" in kinds and "I" in kinds:
        ctx.count("programs:with_wrappers_and_identities")
    small = circ.dag.number_of_nodes() <= 26
    expected = {"CircuitDepth": costs.depth(prog), "CircuitEmitterCount": prog.n_e, "CircuitCnotCount": costs.emitter_cnot_count(prog)}
    if klass == "A":
        expected.update({"CircuitUnitaryCount": costs.unitary_count(prog),
                         "CircuitMaxEmitDepth": costs.max_emitter_depth(prog), "CircuitMaxEmitResetDepth": costs.max_emitter_reset_depth(prog)})
        if "MZ" not in kinds:
            expected["CircuitMeasureCount"] = costs.measure_count(prog)
        else:
            ctx.count("programs:A_with_Z_measurement")
        if small:
            expected["CircuitMaxEmitEffDepth"] = costs.max_emitter_eff_depth(prog)
    pen = lambda x: 3 * x + 1
    pen2 = lambda x: (7 * x + 3) % 11 - x      # neither monotone nor injective: the penalty must be applied to the quantity itself, once
    kw_name = {"CircuitDepth": "depth_penalty", "CircuitEmitterCount": "n_emitter_penalty", "CircuitCnotCount": "n_cnot_penalty",
               "CircuitUnitaryCount": "n_unitary_penalty", "CircuitMeasureCount": "m_penalty", "CircuitMaxEmitDepth": "depth_penalty",
               "CircuitMaxEmitResetDepth": "depth_penalty", "CircuitMaxEmitEffDepth": "depth_penalty"}
    for name, want in expected.items():
        for mode in ("default", "explicit", "explicit_nonmonotone"):
            ctx.count("metric:" + name)
            ctx.case((tuple(o.text() for o in prog.live_ops()), name, mode, stage), len(kinds) >= 3,
                     {"program": prog.text(), "metric": name, "expected": want} if ctx.evaluations % 1500 == 0 else None)
            try:
                met = pool.get((name, mode))
                if met is None:
                    met = getattr(gm, name)() if mode == "default" else getattr(gm, name)(**{kw_name[name]: pen if mode == "explicit" else pen2})
                    pool[(name, mode)] = met
                    if "decoy" in pool:
                        try:
                            met.evaluate(None, pool["decoy"])
                        except Exception:
                            pass
                got = met.evaluate(None, circ)
            except Exception as e:
                ctx.violation("metric_raises", case, {"metric": name, "construction": mode, "exception": f"{type(e).__name__}: {e}"[:300]},
                              key=f"metric_exc:{name}:{mode}:{type(e).__name__}")
                continue
            exp = want if mode == "default" else (pen(want) if mode == "explicit" else pen2(want))
            if got != exp:
                ctx.violation("metric_value_wrong", case, {"metric": name, "construction": mode, "got": got, "expected": exp,
                                                           "quantity": want}, key=f"metric_wrong:{name}")
    # the same metric through the Metrics container (another public way to the same quantity): a weighted sum of its members
    try:
        d = expected["CircuitDepth"]
        w = [2.0, 3.0]
        box = gm.Metrics([gm.CircuitDepth(), gm.CircuitDepth(depth_penalty=pen)], metric_weight=w)
        got = float(box.evaluate(None, circ))
        box2 = gm.Metrics(["CircuitDepth"])
        got2 = float(box2.evaluate(None, circ))
        ctx.count("metric:Metrics_container", 2)
        if abs(got - (w[0] * d + w[1] * pen(d))) > 1e-9 or abs(got2 - d) > 1e-9:
            ctx.violation("metric_value_wrong", case, {"metric": "Metrics([CircuitDepth, CircuitDepth(penalty)], weights [2, 3]) / Metrics(['CircuitDepth'])",
                                                       "got": [got, got2], "expected": [w[0] * d + w[1] * pen(d), d], "quantity": d}, key="metric_wrong:Metrics")
    except Exception as e:
        ctx.violation("metric_raises", case, {"metric": "Metrics container", "exception": f"{type(e).__name__}: {e}"[:300]}, key=f"metric_exc:Metrics:{type(e).__name__}")
    # per-register depth
    if small:
        ctx.count("metric:register_depth", 2)
        ctx.case((tuple(o.text() for o in prog.live_ops()), "register_depth", stage), len(kinds) >= 3)
        want = costs.register_depth(prog)
        try:
            got = {t: [int(v) for v in circ.register_depth[t]] for t in ("e", "p", "c")}
            if got != want:
                ctx.violation("register_depth_wrong", case, {"got": got, "expected": want}, key="metric_wrong:register_depth")
            for t in ("e", "p"):
                if want[t]:
                    if int(circ.min_reg_depth_index(t)) not in [i for i, v in enumerate(want[t]) if v == min(want[t])]:
                        ctx.violation("min_reg_depth_index_wrong", case, {"type": t, "expected_depths": want[t]}, key="metric_wrong:min_reg_depth_index")
                    srt = [int(v) for v in circ.sorted_reg_depth_index(t)]
                    if [want[t][i] for i in srt] != sorted(want[t]):
                        ctx.violation("sorted_reg_depth_index_wrong", case, {"type": t, "got": srt, "expected_depths": want[t]}, key="metric_wrong:sorted_reg_depth_index")
        except Exception as e:
            ctx.violation("register_depth_raises", case, {"exception": f"{type(e).__name__}: {e}"[:300]}, key="metric_exc:register_depth")
    # the metrics promise to work on copies: the circuit must be untouched
    from ..mon import dag as dagmon
    probs = dagmon.check(circ, prog, deep=False)
    if probs:
        ctx.violation("metric_modified_the_circuit", case, {"problems": probs[:4]}, key="metric_mutates")
        return
    # ---- the same circuit object after edits that only remove operations: every metric must follow the new circuit
    live = sorted(prog.live_ops(), key=lambda o: o.id)
    if small and live and stage == 0:
        edits = []
        if "I" in kinds and rng.random() < 0.5:
            circ.remove_identity()
            prog.spec_remove_identity()
            edits.append("remove_identity")
        elif rng.random() < 0.5:
            for _ in range(int(rng.integers(1, 3))):
                live = sorted(prog.live_ops(), key=lambda o: o.id)
                if not live:
                    break
                o = live[int(rng.integers(len(live)))]
                node = [n for n, d in circ.dag.nodes(data=True) if d["op"] is o.obj]
                if not node:
                    break
                circ.remove_op(node[0])
                prog.remove(o.id)
                edits.append("remove " + o.text())
        else:
            # replacements keep the node and change what sits on it: a two-qubit gate changes its type (CNOT <-> CZ, after which
            # only the metrics of class B are determined), a one-qubit gate becomes another one-qubit gate
            for _ in range(int(rng.integers(1, 3))):
                live = sorted(prog.live_ops(), key=lambda o: o.id)
                cand = [o for o in live if o.kind in ("CNOT", "CZ")] if rng.random() < 0.6 else []
                cand = cand or [o for o in live if o.kind in programs.ONEQ]
                if not cand:
                    break
                o = cand[int(rng.integers(len(cand)))]
                node = [n for n, d in circ.dag.nodes(data=True) if d["op"] is o.obj]
                if not node:
                    break
                before = o.text()
                if o.kind in ("CNOT", "CZ"):
                    nk = "CZ" if o.kind == "CNOT" else "CNOT"
                    klass = "B"
                else:
                    nk = [k for k in ("H", "X", "P", "Z") if k != o.kind][int(rng.integers(3))]
                prog.spec_replace(o.id, nk, None)
                o.obj = make_gq_op(o)
                circ.replace_op(node[0], o.obj)
                edits.append(f"replace {before} by {o.text()}")
                ctx.count("programs:re_evaluated_after_replacement")
        ctx.count("programs:re_evaluated_after_removal")
        check_metrics(prog, circ, klass, rng, ctx, dict(case, after_edits=edits), stage=1, pool=pool)
