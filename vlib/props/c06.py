"""C06 - noisy simulation is physical, backend-independent and switchable.
The lock-step compile monitor records the operations each backend executed and the measurement outcomes; the reference
(vlib.ref.circsim + channels from their definitions in vlib.ref.dense) replays the same operations with the noise the
harness attached (directly on operations, or through a (register type, gate type) -> noise map whose meaning the harness
derives itself).  Judged: density-matrix result (Hermitian, PSD, trace = product of survival probabilities, equal to the
reference), stabilizer mixture (total weight, sum of weighted projectors equal to the reference), Infidelity with a random
pure stabilizer target on both, and that zero strength / empty map / noise_simulation=False reproduce the noiseless state."""
import copy
import numpy as np

from ..gen import programs
from ..gen.programs import Program, make_gq_op, ONEQ, CLS
from ..mon.compile import CompileMonitor, match, Mismatch, _Sub
from ..ref import circsim, dense, pauli
from .. import gq

ID = "C06"
LEVEL = "exploration"
RULE = ("random programs on 1..4 qubits over the Clifford alphabet with noise from {none, Depolarizing(p), PauliError(X|Y|Z|I), "
        "PhotonLoss(l)}, p,l in {0, 1e-3, 0.1, 0.5, 1}, placed before or after the gate, attached (i) directly to one-qubit gates, wrapper "
        "gates and CNOT/CZ (one or two entries) or (ii) through assign_noise with a (register type, gate type) map; classes: A unitary "
        "only, B with measurements whose outcome is certain in the noisy state, C with an uncertain measurement (judged up to that "
        "measurement; the divergence of the two backends there is the known finding). Noise on measuring operations is not generated "
        "(the backends document it as unsupported). One evaluation = one (program, noise, backend, switch) compile; distinct = distinct "
        "digest of those; non-trivial = at least one noise model of non-zero strength is attached")
ASSUMPTIONS = ["channels: depolarizing (1-p) rho + p/3 sum_P P rho P; Pauli error = conjugation; photon loss = scaling by (1-l), applied where "
               "the noise object says (before / after), per control / target for two entries", "the stabilizer mixture is converted to a "
               "density matrix by the oracle (weights x projectors), never by graphiq", "tolerance 1e-11 on traces / weights, 1e-10 on matrix entries (absolute)"]
TIMEOUT = {"quick": 900, "thorough": 7200}
STRENGTHS = [0.0, 1e-3, 0.1, 0.5, 1.0]
TINY = [1e-9, 1e-7, 1e-6, 1e-5]      # strengths that a tolerance-based "is this noiseless?" shortcut would swallow


def shards(tier, seed):
    return [{"seed": seed, "shard": i, "count": 60 if tier == "quick" else 900} for i in range(16)]


def floors(tier):
    f = {"compiles:noisy": 1500, "class:A": 150, "class:B": 60, "class:C": 40, "switch:zero_strength": 60, "switch:empty_map": 60,
         "switch:off": 60, "attach:direct": 150, "attach:map": 150, "fidelity:checked": 500, "loss:events": 200, "attach:wrapper_level_noise_object": 40, "attach:solver_map": 60, "history:compiled_before_assign_noise": 60,
         "solver_map:e_and_p_entries_differ_for_a_gate_type": 20, "solver_map:wrapper_level_key": 8}
    for model in ("depol", "pauli", "loss"):
        for place in ("before", "after"):
            for backend in ("dm", "mixture"):
                f[f"cell:{model}:{place}:{backend}"] = 40
    return f


# ------------------------------------------------------------------------------------------------ noise specification
def rand_noise(rng, allow_none=True):
    k = int(rng.integers(5 if allow_none else 4))
    after = bool(rng.integers(2))
    if rng.random() < 0.12:
        return (["depol", "loss"][int(rng.integers(2))], TINY[int(rng.integers(len(TINY)))], after)
    if k == 0:
        return ("depol", STRENGTHS[int(rng.integers(5))], after)
    if k == 1:
        return ("pauli", "XYZI"[int(rng.integers(4))], after)
    if k == 2:
        return ("loss", STRENGTHS[int(rng.integers(5))], after)
    if k == 3:
        return ("depol", [0.1, 0.5][int(rng.integers(2))], after)
    return None


def mk_noise(N):
    import graphiq.noise.noise_models as nm
    if N is None:
        return nm.NoNoise()
    kind, par, after = N
    obj = {"depol": nm.DepolarizingNoise, "pauli": nm.PauliError, "loss": nm.PhotonLoss}[kind](par)
    obj.noise_parameters["After gate"] = after
    return obj


def is_nontrivial(N):
    return N is not None and not (N[0] in ("depol", "loss") and N[1] == 0.0) and not (N[0] == "pauli" and N[1] == "I")


def apply_noise(ref, N, q, ctx=None):
    if N is None:
        return
    kind, par, _ = N
    n = ref.n
    if kind == "depol":
        ref.rho = dense.depolarize(ref.rho, q, par, n)
    elif kind == "pauli":
        if par != "I":
            ref.rho = dense.gate(ref.rho, par.lower(), [q], n)
    elif kind == "loss":
        ref.rho = (1 - par) * ref.rho
        ref.loss_factor *= (1 - par)
        if ctx is not None:
            ctx.count("loss:events")


# ------------------------------------------------------------------------------------------------ program generation
def gen(rng):
    """returns prog (with .noise per SpecOp), how ('direct' | 'map'), the map description, class hint"""
    klass = ["A", "A", "B", "C"][int(rng.integers(4))]
    while True:
        n_e, n_p = int(rng.integers(0, 3)), int(rng.integers(0, 4))
        if 1 <= n_e + n_p <= 4:
            break
    n_c = 1 if klass != "A" else 0
    prog = Program(n_e, n_p, n_c)
    regs = [("e", i) for i in range(n_e)] + [("p", i) for i in range(n_p)]
    L = int(rng.integers(1, 10))
    alpha = ["H", "P", "Pdag", "X", "Y", "Z", "I", "W", "W", "CNOT", "CNOT", "CZ"]
    oplist = []
    for _ in range(L):
        k = alpha[int(rng.integers(len(alpha)))]
        if k in ("CNOT", "CZ") and len(regs) < 2:
            k = "H"
        if k in ONEQ:
            oplist.append(prog.new_op(k, [regs[int(rng.integers(len(regs)))]]))
        elif k == "W":
            oplist.append(prog.new_op("W", [regs[int(rng.integers(len(regs)))]], gates=[ONEQ[int(rng.integers(7))] for _ in range(int(rng.integers(1, 4)))]))
        else:
            a, b = (regs[int(i)] for i in rng.choice(len(regs), 2, replace=False))
            oplist.append(prog.new_op(k, [a, b]))
    if klass in ("B", "C"):
        # measuring operations; for class B they are placed first (before any noise), for class C anywhere
        nm_ = int(rng.integers(1, 3))
        for _ in range(nm_):
            k = ["MZ", "MR", "cCNOT", "cCZ"][int(rng.integers(4))]
            if k != "MZ" and len(regs) < 2:
                k = "MZ"
            if k == "MZ":
                op = prog.new_op("MZ", [regs[int(rng.integers(len(regs)))]], c=0)
            else:
                a, b = (regs[int(i)] for i in rng.choice(len(regs), 2, replace=False))
                op = prog.new_op(k, [a, b], c=0)
            pos = int(rng.integers(0, 2)) if klass == "B" else int(rng.integers(len(oplist) + 1))
            oplist.insert(pos, op)
    return prog, oplist, klass


def attach_direct(rng, prog, oplist, zero=False):
    for op in oplist:
        op.noise = None
        if op.kind in ("MZ", "MR", "cCNOT", "cCZ"):
            continue
        if rng.random() < 0.5:
            continue
        if op.kind in ONEQ:
            op.noise = rand_noise(rng)
        elif op.kind == "W":
            if rng.random() < 0.3:
                # one noise object for the whole wrapper: it acts once, after (or before) all the wrapped gates
                n1 = rand_noise(rng, allow_none=False)
                op.noise = ("single", n1)
            else:
                op.noise = [rand_noise(rng) for _ in op.gates]
        else:
            a = rand_noise(rng, allow_none=False)
            b = rand_noise(rng, allow_none=False) if rng.random() < 0.6 else a
            op.noise = [a, b]
        if zero:
            op.noise = zero_strength(op.noise)


def zero_strength(N):
    if N is None:
        return None
    if isinstance(N, tuple) and N[0] == "single":
        return ("single", zero_strength(N[1]))
    if isinstance(N, list):
        return [zero_strength(x) for x in N]
    kind, par, after = N
    return (kind, 0.0, after) if kind != "pauli" else ("pauli", "I", after)


def rand_map(rng, zero=False):
    mp = {"e": {}, "p": {}, "ee": {}, "ep": {}, "pe": {}, "pp": {}}
    for t in ("e", "p"):
        for g in ("Hadamard", "Phase", "PhaseDagger", "SigmaX", "SigmaY", "SigmaZ", "Identity"):
            if rng.random() < 0.35:
                mp[t][g] = rand_noise(rng, allow_none=False)
    for t in ("ee", "ep", "pe", "pp"):
        for g in ("CNOT", "CZ"):
            if rng.random() < 0.5:
                a = rand_noise(rng, allow_none=False)
                mp[t][g] = [a, rand_noise(rng, allow_none=False)] if rng.random() < 0.5 else a
    if zero:
        mp = {t: {g: zero_strength(v) for g, v in d.items()} for t, d in mp.items()}
    return mp


def noise_from_map(prog, oplist, mp):
    """the meaning of a noise map, derived by the harness: every gate of type g on register type t gets mp[t][g]"""
    for op in oplist:
        op.noise = None
        if op.kind in ONEQ:
            op.noise = mp[op.q[0][0]].get(CLS[op.kind])
        elif op.kind == "W":
            if "OneQubitGateWrapper" in mp[op.q[0][0]]:
                op.noise = ("single", mp[op.q[0][0]]["OneQubitGateWrapper"])      # one noise object for the whole wrapper
            else:
                op.noise = [mp[op.q[0][0]].get(CLS[g]) for g in op.gates]
        elif op.kind in ("CNOT", "CZ"):
            v = mp[op.q[0][0] + op.q[1][0]].get(CLS[op.kind])
            op.noise = None if v is None else (v if isinstance(v, list) else [v, v])


def gq_map(mp):
    return {t: {g: ([mk_noise(x) for x in v] if isinstance(v, list) else mk_noise(v)) for g, v in d.items()} for t, d in mp.items()}


def build_circuit(prog, oplist, with_noise_objects):
    from graphiq.circuit.circuit_dag import CircuitDAG
    circ = CircuitDAG(n_emitter=prog.n_e, n_photon=prog.n_p, n_classical=prog.n_c)
    prog.wires = {w: [] for w in prog.wires}
    prog.steps = []
    for op in oplist:
        noise = None
        if with_noise_objects and getattr(op, "noise", None) is not None:
            N = op.noise
            if isinstance(N, tuple) and N[0] == "single":
                noise = mk_noise(N[1])
            else:
                noise = [mk_noise(x) for x in N] if isinstance(N, list) else mk_noise(N)
        op.obj = make_gq_op(op, noise=noise)
        circ.add(op.obj)
        prog.spec_add(op)
    return circ


# ------------------------------------------------------------------------------------------------ judge
def reference_run(prog, run, oplist_noise, ctx, stop_at_uncertain=True):
    """replay the executed operations with the specified noise. returns (ref, info) ; info['truncated'] = step of the first
    uncertain measurement (class C), None otherwise"""
    seq = match(prog, run)
    ref = circsim.RefState(prog.n_p, prog.n_e, prog.n_c)
    ref.group = None
    ref.loss_factor = 1.0
    info = {"truncated": None, "uncertain": False}
    for step, (sp, g, ev) in enumerate(seq):
        N = getattr(sp, "noise", None)
        qs = [ref.q(r) for r in sp.q]
        if g is not None:
            k = sum(1 for (s2, g2, e2) in seq[:step] if s2 is sp)       # position in executed order
            idx = len(sp.gates) - 1 - k                                   # listed position of this gate
            n1 = N[idx] if isinstance(N, list) else None
            if isinstance(N, tuple) and N[0] == "single":
                # wrapper-level noise: carried by an extra Identity before the first executed gate or after the last one
                if g == "I*":
                    apply_noise(ref, N[1], qs[0], ctx)
                else:
                    ref.apply(_Sub(g, sp.q))
                continue
            if n1 is not None and not n1[2]:
                apply_noise(ref, n1, qs[0], ctx)
            ref.apply(_Sub(g, sp.q))
            if n1 is not None and n1[2]:
                apply_noise(ref, n1, qs[0], ctx)
            continue
        if sp.kind in ("MZ", "MR", "cCNOT", "cCZ"):
            outs = ev["outcomes"]
            m = outs[0]
            mixture_outcomes = m if isinstance(m, list) else None
            m = int(m[0]) if isinstance(m, list) else int(m)
            p = ref.probs(qs[0])
            certain = max(p) > 1 - 1e-12       # at the level of the comparison tolerance: a 1e-9 depolarizing makes an outcome uncertain
            if not certain and p[m] < 1e-6:
                # the backend took an outcome that is possible but so improbable that post-selecting on it divides by ~0: nothing
                # can be compared reliably beyond this point (counted, for both backends)
                info["uncertain"] = True
                info["truncated"] = step
                info["ambiguous"] = True
                info["pre_state"] = None
                if ctx is not None:
                    ctx.count("measurement:numerically_ambiguous_outcome_taken")
                return ref, info
            if not certain:
                info["uncertain"] = True
                if stop_at_uncertain:
                    # the state right before this measurement must still agree with the reference
                    info["truncated"] = step
                    info["pre_state"] = ev.get("state_before")
                    return ref, info
            if mixture_outcomes is not None and certain and any(int(x) != m for x in mixture_outcomes):
                info["mixture_branch_outcomes_differ_on_certain_measurement"] = [int(x) for x in mixture_outcomes]
            ref.apply(sp, m)
            continue
        noises = N if isinstance(N, list) else [N]
        for n1, q in zip(noises, qs):
            if n1 is not None and not n1[2]:
                apply_noise(ref, n1, q, ctx)
        ref.apply(sp)
        for n1, q in zip(noises, qs):
            if n1 is not None and n1[2]:
                apply_noise(ref, n1, q, ctx)
    return ref, info


def backend_rho(state):
    rep = state.rep_data
    name = type(rep).__name__
    if name == "DensityMatrix":
        return np.array(rep.data), "dm", None
    if name == "MixedStabilizer":
        n = rep.n_qubits
        rho = np.zeros((2 ** n, 2 ** n), dtype=complex)
        w = 0.0
        for p, t in rep.mixture:
            probs = pauli.check_clifford_tableau(*gq.clifford_snapshot(t))
            if probs:
                return None, "mixture", "invalid tableau in the mixture: " + probs[0]
            rho = rho + p * dense.projector_of_group(gq.clifford_stab_ptab(t))
            w += p
        return rho, "mixture", w
    if name == "Stabilizer":
        return dense.projector_of_group(gq.clifford_stab_ptab(rep.data)), "stabilizer", 1.0
    return None, name, None


def run_shard(spec, ctx):
    m = gq.mods()
    mon = CompileMonitor(None, snapshots=False, snap_before=True)
    mon.install()
    for i in range(spec["count"]):
        check_case([spec["seed"], 6, spec["shard"], i], ctx, m, mon)
        if i % 5 == 0:
            check_solver_case([spec["seed"], 66, spec["shard"], i], ctx, m, mon)


def replay(case, ctx):
    m = gq.mods()
    mon = CompileMonitor(None, snapshots=False, snap_before=True)
    mon.install()
    if "solver_pseed" in case:
        check_solver_case(case["solver_pseed"], ctx, m, mon)
        return
    check_case(case["pseed"], ctx, m, mon)


def _exc(e):
    return f"{type(e).__name__}: {e}"[:300]


def compile_with(m, backend, circ, det, noise_sim, mon):
    comp = m[backend]()
    comp.measurement_determinism = det
    comp.noise_simulation = noise_sim
    mon.pop_runs()
    st = comp.compile(circ)
    runs = mon.pop_runs()
    return st, runs[0]


def check_case(pseed, ctx, m, mon):
    from graphiq.metrics import Infidelity
    rng = np.random.default_rng(pseed)
    prog, oplist, klass = gen(rng)
    how = "direct" if rng.random() < 0.5 else "map"
    switch = ["noisy", "noisy", "noisy", "zero_strength", "empty_map", "off"][int(rng.integers(6))]
    det = int(rng.integers(2))
    mp = None
    if how == "direct" and switch != "empty_map":
        attach_direct(rng, prog, oplist, zero=(switch == "zero_strength"))
        circ = build_circuit(prog, oplist, with_noise_objects=True)
    else:
        how = "map"
        mp = {"e": {}, "p": {}, "ee": {}, "ep": {}, "pe": {}, "pp": {}} if switch == "empty_map" else rand_map(rng, zero=(switch == "zero_strength"))
        noise_from_map(prog, oplist, mp)
        base = build_circuit(prog, oplist, with_noise_objects=False)
        if rng.random() < 0.5:
            # the circuit has been used before the noise map is applied to it (compiled, listed unwrapped), as a solver does
            ctx.count("history:compiled_before_assign_noise")
            try:
                c0 = m[["StabilizerCompiler", "DensityMatrixCompiler"][int(rng.integers(2))]]()
                c0.measurement_determinism = det
                c0.compile(base)
                base.sequence(unwrapped=True)
                mon.pop_runs()
            except Exception:
                mon.pop_runs()
        try:
            circ = base.assign_noise(gq_map(mp))
        except Exception as e:
            ctx.case((tuple(prog.text()), "assign"), True)
            ctx.violation("assign_noise_raises", {"pseed": pseed}, {"exception": _exc(e), "program": prog.text()}, key="assign_exc:" + type(e).__name__)
            return
        # the noisy copy holds copies of the operations: re-read the specification's objects from it
        try:
            prog = reattach(prog, oplist, circ)
        except Exception as e:
            ctx.case((tuple(prog.text()), "assign"), True)
            ctx.violation("assign_noise_changed_the_circuit", {"pseed": pseed}, {"problem": _exc(e), "program": prog.text()}, key="assign_changed")
            return
    judge_case(ctx, m, mon, rng, prog, oplist, circ, klass, how, switch, det, {"pseed": pseed})


def judge_case(ctx, m, mon, rng, prog, oplist, circ, klass, how, switch, det, case0):
    from graphiq.metrics import Infidelity
    expect_noiseless = switch in ("zero_strength", "empty_map", "off")
    def flat(N):
        if isinstance(N, tuple) and N and N[0] == "single":
            return [N[1]]
        return N if isinstance(N, list) else [N]
    nontrivial = any(is_nontrivial(x) for op in oplist for x in flat(getattr(op, "noise", None)))
    desc = [o.text() + ("" if getattr(o, "noise", None) is None else "  ~" + repr(o.noise)) for o in oplist]
    case = {**case0, "class": klass, "attach": how, "switch": switch, "setting": det, "program": desc, "registers": [prog.n_e, prog.n_p, prog.n_c]}
    ctx.count("class:" + klass)
    ctx.count("attach:" + how)
    if switch != "noisy":
        ctx.count("switch:" + switch)
    n = prog.n_q
    t_target = pauli.random_stabilizer_group(rng, n)
    results = {}
    for backend in ("DensityMatrixCompiler", "StabilizerCompiler"):
        bname = "dm" if backend.startswith("Density") else "mixture"
        ctx.count("compiles:noisy")
        ctx.case((tuple(desc), backend, switch, det), nontrivial and switch == "noisy", {"program": desc, "backend": backend, "switch": switch} if ctx.evaluations % 250 == 0 else None)
        for op in oplist:
            Ns = flat(getattr(op, "noise", None))
            if isinstance(getattr(op, "noise", None), tuple) and op.noise[0] == "single":
                ctx.count("attach:wrapper_level_noise_object")
            for N in Ns:
                if is_nontrivial(N):
                    ctx.count(f"cell:{N[0]}:{'after' if N[2] else 'before'}:{bname}")
        try:
            st, run = compile_with(m, backend, circ, det, switch != "off", mon)
        except Exception as e:
            ctx.violation("noisy_compile_raises", case, {"backend": backend, "exception": _exc(e)}, key=f"compile_exc:{bname}:{type(e).__name__}")
            continue
        # reference
        spec_noise_on = switch != "off"
        saved = [getattr(o, "noise", None) for o in oplist]
        if not spec_noise_on:
            for o in oplist:
                # a wrapper-level noise object still makes unwrap() emit its (now noiseless) carrier Identity
                o.noise = ("single", ("pauli", "I", o.noise[1][2])) if (isinstance(o.noise, tuple) and o.noise and o.noise[0] == "single") else None
        try:
            # the density-matrix backend post-selects on the outcome it takes (judged through the whole circuit); the
            # mixture measures every branch separately, which is only a well-defined channel when the outcome is certain
            ref, info = reference_run(prog, run, None, ctx, stop_at_uncertain=(bname == "mixture"))
        except Mismatch as e:
            ctx.violation("execution_order_or_dispatch", case, {"backend": backend, "problem": str(e)}, key=f"dispatch:{bname}")
            continue
        except circsim.Impossible as e:
            ctx.violation("impossible_outcome", case, {"backend": backend, "problem": str(e)}, key=f"impossible:{bname}")
            continue
        except ZeroDivisionError:
            # the state has weight zero (photon loss with rate 1) when a measurement is reached: only the weight is defined
            ctx.count("reference:zero_weight_state_at_measurement")
            rho, kind, weight = backend_rho(st)
            if rho is not None and np.all(np.isfinite(rho)) and abs(np.real(np.trace(rho))) > 1e-8:
                ctx.violation("trace_is_not_the_product_of_survival_probabilities", case, {"backend": backend, "trace": float(np.real(np.trace(rho))), "survival_product": 0.0},
                              key=f"trace:{bname}")
            continue
        finally:
            for o, s in zip(oplist, saved):
                o.noise = s
        if info["truncated"] is not None:
            ctx.count("classC:truncated_at_uncertain_measurement")
            results[bname] = ("truncated", None)
            pre = info.get("pre_state")
            if pre is not None and pre[0] == "ms":
                rho_pre = sum(p * dense.projector_of_group(sn.group()) for p, sn in pre[1])
                if not np.allclose(rho_pre, ref.rho, atol=1e-8, rtol=0):
                    ctx.violation("noisy_state_differs_from_reference", case, {"backend": backend, "where": "before the first uncertain measurement",
                                                                               "max_abs_diff": float(np.max(np.abs(rho_pre - ref.rho)))}, key=f"state:{bname}:{how}:pre_measurement")
            continue
        rho, kind, weight = backend_rho(st)
        if rho is None:
            ctx.violation("backend_state_unreadable", case, {"backend": backend, "problem": weight}, key=f"unreadable:{bname}")
            continue
        results[bname] = ("full", rho)
        det_ = {"backend": backend, "trace": float(np.real(np.trace(rho))), "reference_trace": float(np.real(np.trace(ref.rho))),
                "survival_product": ref.loss_factor}
        if not np.allclose(rho, rho.conj().T, atol=1e-9, rtol=0):
            ctx.violation("result_not_hermitian", case, det_, key=f"hermitian:{bname}")
        elif dense.psd_min_eig(rho) < -1e-9:
            ctx.violation("result_not_positive_semidefinite", case, {**det_, "min_eigenvalue": dense.psd_min_eig(rho)}, key=f"psd:{bname}")
        if abs(np.real(np.trace(rho)) - ref.loss_factor) > 1e-11:
            ctx.violation("trace_is_not_the_product_of_survival_probabilities", case, det_, key=f"trace:{bname}")
        elif kind == "mixture" and abs(weight - ref.loss_factor) > 1e-11:
            ctx.violation("mixture_weight_is_not_the_product_of_survival_probabilities", case, {**det_, "weight": weight}, key="weight:mixture")
        elif not np.allclose(rho, ref.rho, atol=1e-10, rtol=0):
            wrappers = [o.text() + " ~" + repr(o.noise) for o in oplist if o.kind == "W" and getattr(o, "noise", None)]
            ctx.violation("noisy_state_differs_from_reference", case, {**det_, "max_abs_diff": float(np.max(np.abs(rho - ref.rho))), "noisy_wrappers": wrappers[:4]},
                          key=f"state:{bname}:{how}:{'wrapper' if wrappers else 'plain'}")
        if "mixture_branch_outcomes_differ_on_certain_measurement" in info:
            ctx.violation("mixture_branches_disagree_on_a_certain_outcome", case, info, key="mixture_outcomes")
        # fidelity with a random pure stabilizer target through graphiq's own metric
        try:
            if bname == "dm":
                tq = m["QuantumState"](dense.projector_of_group(t_target), rep_type="dm")
            else:
                tq = m["QuantumState"](gq.ptab_to_clifford(t_target, rng), rep_type="s")
            if abs(ref.loss_factor - 1) < 1e-12 or bname == "mixture":
                val = float(np.real(Infidelity(tq).evaluate(st, circ)))
                ctx.count("fidelity:checked")
                want = 1 - float(np.real(np.trace(dense.projector_of_group(t_target) @ ref.rho)))
                if abs(val - want) > 1e-7:
                    ctx.violation("infidelity_of_noisy_state_wrong", case, {"backend": backend, "value": val, "reference": want}, key=f"fidelity:{bname}")
        except Exception as e:
            ctx.violation("infidelity_of_noisy_state_raises", case, {"backend": backend, "exception": _exc(e)}, key=f"fidelity_exc:{bname}:{type(e).__name__}")
        # switched off / zero / empty: exactly the noiseless compile of the same circuit
        if expect_noiseless:
            try:
                st0, run0 = compile_with(m, backend, circ, det, False, mon)
                rho0, _, _ = backend_rho(st0)
                if not np.allclose(rho, rho0, atol=1e-9, rtol=0):
                    ctx.violation("zero_noise_differs_from_noiseless_compile", case, {"backend": backend, "switch": switch}, key=f"switch:{switch}:{bname}")
            except Exception as e:
                ctx.violation("noiseless_compile_raises", case, {"backend": backend, "exception": _exc(e)}, key=f"noiseless_exc:{bname}")
    # class C: the two backends treat a measurement of uncertain outcome on a noisy state differently (known finding)
    if results.get("mixture", (None,))[0] == "truncated" and results.get("dm", (None,))[0] == "full":
        try:
            b, _ = compile_with(m, "StabilizerCompiler", circ, det, switch != "off", mon)
            ra = results["dm"][1]
            rb, _, _ = backend_rho(b)
            if ra is not None and rb is not None and not np.allclose(ra, rb, atol=1e-8, rtol=0):
                ctx.violation("backends_disagree_after_uncertain_measurement_on_noisy_state", case, {"max_abs_diff": float(np.max(np.abs(ra - rb)))},
                              key="measurement-on-noisy-state")
        except Exception as e:
            ctx.count("classC:compare_raised:" + type(e).__name__)


def _flat(N):
    if isinstance(N, tuple) and N and N[0] == "single":
        return [N[1]]
    return N if isinstance(N, list) else [N]


def check_solver_case(pseed, ctx, m, mon):
    """a circuit built by the deterministic solver from a noise map: the noise each operation carries must be what the map says
    for its register type(s) and gate type(s) - judged through the same compile-and-compare as every other case, with the
    specification's noise derived from the map by the harness"""
    from graphiq.solvers.time_reversed_solver import TimeReversedSolver
    from graphiq.metrics import Infidelity
    from ..ref import graphs
    rng = np.random.default_rng(pseed)
    n = int(rng.integers(2, 5))
    A = graphs.random_connected_graph(rng, n, [0.3, 0.6, 1.0][int(rng.integers(3))])
    mp = {"e": {}, "p": {}, "ee": {}, "ep": {}}
    gate_types = ("Hadamard", "Phase", "PhaseDagger", "SigmaX", "SigmaY", "SigmaZ", "Identity")
    def pick():
        N = rand_noise(rng, allow_none=False)
        if N[0] == "depol" and rng.random() < 0.7:
            N = ("pauli", "XYZ"[int(rng.integers(3))], N[2])
        return N
    for g in gate_types:
        for t in ("e", "p"):
            if rng.random() < 0.5:
                mp[t][g] = pick()
    for t in ("e", "p"):
        if rng.random() < 0.15:
            mp[t]["OneQubitGateWrapper"] = pick()
            ctx.count("solver_map:wrapper_level_key")
    for t in ("ee", "ep"):
        if rng.random() < 0.5:
            mp[t]["CNOT"] = pick()
    det = int(rng.integers(2))
    n_depol = lambda ol: sum(1 for o in ol for x in _flat(getattr(o, "noise", None)) if x is not None and x[0] == "depol" and x[1] > 0)
    try:
        X, Z, K = graphs.graph_stabilizers(A)
        tgt = gq.ptab_to_clifford(pauli.PTab(X, Z, K), rng)
        # the gates of the deterministic solver's circuit do not depend on the noise map: a dry run tells how many depolarizing
        # events the map would cause (each multiplies the number of mixture branches by four); above three, depolarizing entries
        # are turned into Pauli errors until the circuit is affordable - the attachment mechanism does not look at the model type
        target = m["QuantumState"](tgt.copy(), rep_type="s")
        comp = m["StabilizerCompiler"]()
        comp.measurement_determinism = det
        dry = TimeReversedSolver(target=target, metric=Infidelity(target=target), compiler=comp)
        dry.solve()
        mon.pop_runs()
        prog0 = programs.program_from_circuit(dry.result[1])
        while True:
            noise_from_map(prog0, list(prog0.ops), mp)
            if n_depol(list(prog0.ops)) <= 3:
                break
            keys = [(t, g) for t, d in mp.items() for g, v in d.items() if v[0] == "depol" and v[1] > 0]
            t, g = keys[int(rng.integers(len(keys)))]
            mp[t][g] = ("pauli", "XYZ"[int(rng.integers(3))], mp[t][g][2])
    except Exception as e:
        ctx.case(("solver", A.tobytes(), repr(mp)), True)
        ctx.violation("solver_raises", {"solver_pseed": pseed}, {"exception": _exc(e), "noise_map": None}, key="solver_dry_exc:" + type(e).__name__)
        return
    if any(g in mp["e"] and g in mp["p"] and mp["e"][g] != mp["p"][g] for g in gate_types):
        ctx.count("solver_map:e_and_p_entries_differ_for_a_gate_type")
    case0 = {"solver_pseed": pseed, "target_adjacency": A.tolist(), "noise_map": {t: {g: repr(v) for g, v in d.items()} for t, d in mp.items()}}
    try:
        target = m["QuantumState"](tgt.copy(), rep_type="s")
        comp = m["StabilizerCompiler"]()
        comp.measurement_determinism = det
        solver = TimeReversedSolver(target=target, metric=Infidelity(target=target), compiler=comp, noise_model_mapping=gq_map(mp))
        solver.solve()
        circ = solver.result[1]
        mon.pop_runs()
        prog = programs.program_from_circuit(circ)
    except Exception as e:
        ctx.case(("solver", A.tobytes(), repr(mp)), True)
        ctx.violation("solver_with_noise_map_raises", case0, {"exception": _exc(e)}, key="solver_map_exc:" + type(e).__name__)
        return
    oplist = list(prog.ops)
    noise_from_map(prog, oplist, mp)
    if n_depol(oplist) > 3:
        ctx.violation("solver_circuit_depends_on_the_noise_map", case0, {"depolarizing_events": n_depol(oplist)}, key="solver_map_shape")
        return
    judge_case(ctx, m, mon, rng, prog, oplist, circ, "S", "solver_map", "noisy", det, case0)


def reattach(prog, oplist, circ):
    """after assign_noise the circuit holds copies of the operations in the same order: bind the specification to them"""
    seq = [op for op in circ.sequence() if type(op).__name__ not in ("Input", "Output")]
    # assign_noise adds the operations in sequence() order of the original; recover the pairing by per-wire order
    p2 = programs.program_from_circuit(circ)
    # transfer noise specs by matching per-wire signatures
    sig = lambda o: (o.kind, tuple(o.q), o.c, tuple(o.gates) if o.gates else None)
    for w, ids in prog.wires.items():
        if w[0] == "c":
            continue
        ids2 = p2.wires[w]
        if [sig(prog.ops[i]) for i in ids] != [sig(p2.ops[j]) for j in ids2]:
            raise Mismatch(f"assign_noise changed the operations on wire {w}")
        for i, j in zip(ids, ids2):
            p2.ops[j].noise = getattr(prog.ops[i], "noise", None)
    for k, o in enumerate(oplist):
        pass
    oplist[:] = [o for o in p2.ops]
    return p2
