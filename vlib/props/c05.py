"""C05 - stabilizer state comparison and fidelity are exact.
Boundary monitors on sfm.fidelity / inner_product, canonical_form, Stabilizer.__eq__, Infidelity.evaluate on stabilizer
targets; oracle = dense overlaps (n<=3 complete, precomputed state vectors) and the closed form of vlib.ref.pauli."""
import numpy as np

from ..ref import dense, pauli
from ..gen import stab
from .. import gq

ID = "C05"
LEVEL = "exploration"
RULE = ("pairs of stabilizer states as CliffordTableaux with random destabilizers: n<=2 all ordered pairs x 3 random "
        "generating sets; n=3 all 1080^2 ordered pairs (thorough) or a sample (quick), one random generating set each; "
        "n=4..10 random (state, state o short Clifford word) pairs; pairs differing in exactly one generator sign; the "
        "same state in two generating sets. distinct = distinct (tableau a, tableau b) digest; non-trivial = the two "
        "tableaux are not identical arrays")
ASSUMPTIONS = ["reference overlap from state vectors (n<=3) or 2^-(n-dim(Sa cap Sb)) / 0 on sign conflict (vlib.ref.pauli), "
               "the two references are cross-checked in the self-test", "values compared with tolerance 1e-9 (dyadic rationals)"]
EXHAUSTIVE_SUBSPACES = {"quick": ["all ordered pairs of the 6 and 60 stabilizer states on 1 and 2 qubits"],
                        "thorough": ["all ordered pairs of the 6, 60 and 1080 stabilizer states on 1, 2 and 3 qubits"]}
TOL = 1e-9


def shards(tier, seed):
    out = [{"kind": "exh12", "seed": seed, "shard": 0}]
    if tier == "thorough":
        for i in range(60):
            out.append({"kind": "exh3", "seed": seed, "lo": i * 18, "hi": (i + 1) * 18, "shard": i})
    else:
        for i in range(8):
            out.append({"kind": "sample3", "seed": seed, "shard": i, "count": 2500})
    nr = 8 if tier == "quick" else 16
    for i in range(nr):
        out.append({"kind": "random", "seed": seed, "shard": i, "count": 500 if tier == "quick" else 6000,
                    "nmax": 8 if tier == "quick" else 10})
    return out


def floors(tier):
    f = {"pairs:equal_state_diff_presentation": 1000, "pairs:sign_only": 1000, "fidelity:calls": 30000,
         "eq:calls": 10000, "canonical:calls": 10000, "infidelity:calls": 3000, "pairs:nonzero_signs": 10000, "pairs:low_sign_presentations": 500, "metric_reuse:evaluations": 2000, "pairs:n>=12": 100}
    for v in ("0", "0.125", "0.25", "0.5", "1"):
        f["overlap3:" + v] = 1
    return f


def _vecs(n):
    states = stab.all_states(n)
    V = np.array([dense.state_of_group(t) for t in states])
    return states, V


def run_shard(spec, ctx):
    rng = np.random.default_rng([spec["seed"], {"exh12": 1, "exh3": 2, "sample3": 3, "random": 4}[spec["kind"]], spec["shard"]])
    if spec["kind"] == "exh12":
        for n in (1, 2):
            states, V = _vecs(n)
            O = np.abs(V.conj() @ V.T) ** 2
            for rep in range(3):
                pres = [stab.random_presentation(rng, t) for t in states]
                for i in range(len(states)):
                    for j in range(len(states)):
                        check_pair(pres[i], pres[j], float(O[i, j]), ctx, rng, {"fam": "exh12", "n": n, "i": i, "j": j}, full=True)
    elif spec["kind"] in ("exh3", "sample3"):
        states, V = _vecs(3)
        O = np.abs(V.conj() @ V.T) ** 2
        if spec["kind"] == "exh3":
            rows = range(spec["lo"], min(spec["hi"], len(states)))
            pairs = ((i, j) for i in rows for j in range(len(states)))
        else:
            pairs = ((int(rng.integers(1080)), int(rng.integers(1080))) for _ in range(spec["count"]))
        presA = [stab.random_presentation(rng, t) for t in states]
        presB = [stab.random_presentation(rng, t) for t in states]
        for k, (i, j) in enumerate(pairs):
            ctx.count("overlap3:" + repr(round(float(O[i, j]), 6)).rstrip("0").rstrip(".") if O[i, j] not in (0, 1) else
                      "overlap3:" + str(int(O[i, j])))
            check_pair(presA[i], presB[j], float(O[i, j]), ctx, rng, {"fam": "n3", "i": i, "j": j}, full=(k % 7 == 0))
    else:
        for k in range(spec["count"]):
            n = int(rng.integers(2, spec["nmax"] + 1))
            if k % 25 == 7:
                n = int(rng.integers(12, 41))       # sizes at which sums of phase terms pass 127 / 255 and dense checks are impossible
                ctx.count("pairs:n>=12")
            fam = ["word", "sign", "same", "indep"][k % 4]
            a = stab.y_heavy_state(rng, n) if k % 3 == 0 else pauli.random_stabilizer_group(rng, n)
            if fam == "word":
                b = a.copy()
                for g in pauli.random_clifford_word(rng, n, int(rng.integers(1, 5))):
                    b.apply(*g)
                b = pauli.scramble_generators(rng, b)
            elif fam == "sign":
                b = pauli.scramble_generators(rng, a)
                r = int(rng.integers(n))
                b.K[r] = (b.K[r] + 2) % 4
                b = pauli.scramble_generators(rng, b)
                ctx.count("pairs:sign_only")
            elif fam == "same":
                b = pauli.scramble_generators(rng, a)
            else:
                b = pauli.random_stabilizer_group(rng, n)
            if k % 4 == 1:
                a, b = stab.low_sign_presentation(rng, a), stab.low_sign_presentation(rng, b)
                ctx.count("pairs:low_sign_presentations")
            ref = pauli.overlap_sq(a, b)
            if n <= 6 and k % 5 == 0:
                d = abs(np.vdot(dense.state_of_group(a), dense.state_of_group(b))) ** 2
                assert abs(d - ref) < 1e-9, "oracle disagreement (pauli closed form vs dense)"
            check_pair(a, b, ref, ctx, rng, {"fam": fam, "n": n, "seed": [spec["seed"], spec["shard"], k]}, full=True)
            if k % 6 == 0:
                c = pauli.scramble_generators(rng, b) if k % 12 == 0 else pauli.random_stabilizer_group(rng, n)
                check_metric_reuse([a, b, c], int(rng.integers(1 << 30)), ctx)


def _ser(t):
    return {"labels": t.labels()}


def replay(case, ctx):
    if "states" in case:
        check_metric_reuse([pauli.PTab.from_labels(l) for l in case["states"]], case["dseed"], ctx)
        return
    a = pauli.PTab.from_labels(case["a"]["labels"])
    b = pauli.PTab.from_labels(case["b"]["labels"])
    rng = np.random.default_rng(case.get("dseed", 0))
    ref = pauli.overlap_sq(a, b)
    check_pair(a, b, ref, ctx, rng, case.get("info", {}), full=True, dseed=case.get("dseed"))


def check_pair(a, b, ref, ctx, rng, info, full=True, dseed=None):
    import graphiq.backends.stabilizer.functions.metric as sfm
    from graphiq.backends.stabilizer.functions.stabilizer import canonical_form
    from graphiq.backends.stabilizer.state import Stabilizer
    if dseed is None:
        dseed = int(rng.integers(1 << 30))
    drng = np.random.default_rng(dseed)
    ta = gq.ptab_to_clifford(a, drng, random_destab_phase=True)
    tb = gq.ptab_to_clifford(b, drng, random_destab_phase=True)
    case = {"a": _ser(a), "b": _ser(b), "dseed": dseed, "info": info}
    identical = np.array_equal(ta.table, tb.table) and np.array_equal(ta.phase, tb.phase)
    ctx.case((ta.table.tobytes(), ta.phase.tobytes(), tb.table.tobytes(), tb.phase.tobytes()), not identical,
             {"a": a.labels(), "b": b.labels(), "reference_overlap": ref} if ctx.evaluations % 3000 == 0 else None)
    same_state = abs(ref - 1) < 1e-9
    if a.K.any() and ((a.K - (a.X & a.Z).sum(axis=1)) % 4).any() or ((b.K - (b.X & b.Z).sum(axis=1)) % 4).any():
        ctx.count("pairs:nonzero_signs")
    if same_state and not identical:
        ctx.count("pairs:equal_state_diff_presentation")
    snap = (ta.table.copy(), ta.phase.copy(), tb.table.copy(), tb.phase.copy())
    # ---- fidelity, both orders
    try:
        f1 = float(sfm.fidelity(ta, tb))
        f2 = float(sfm.fidelity(tb, ta))
        ctx.count("fidelity:calls", 2)
    except Exception as e:
        ctx.violation("fidelity_raises", case, {"exception": f"{type(e).__name__}: {e}"[:300]}, key="fid_exc")
        return
    det = {"f(a,b)": f1, "f(b,a)": f2, "reference": ref, "a": a.labels(), "b": b.labels()}
    if abs(f1 - ref) > TOL or abs(f2 - ref) > TOL:
        ctx.violation("fidelity_wrong", case, det, key="fid_value" if abs(f1 - f2) < TOL else "fid_asym")
    if not (np.array_equal(snap[0], ta.table) and np.array_equal(snap[1], ta.phase) and np.array_equal(snap[2], tb.table)
            and np.array_equal(snap[3], tb.phase)):
        ctx.violation("fidelity_mutates_input", case, {}, key="fid_mutates")
    if not full:
        return
    # ---- equality of Stabilizer representations
    try:
        eq1 = bool(Stabilizer(ta.copy()) == Stabilizer(tb.copy()))
        eq2 = bool(Stabilizer(tb.copy()) == Stabilizer(ta.copy()))
        ctx.count("eq:calls", 2)
        if eq1 != same_state or eq2 != same_state:
            ctx.violation("state_equality_wrong", case, {"eq(a,b)": eq1, "eq(b,a)": eq2, "same_state": same_state, **det},
                          key="eq_false_pos" if (eq1 or eq2) and not same_state else "eq_false_neg")
    except Exception as e:
        ctx.violation("eq_raises", case, {"exception": f"{type(e).__name__}: {e}"[:300]}, key="eq_exc")
    # ---- canonical form depends only on the state, and distinguishes signs
    try:
        ca = canonical_form(ta.to_stabilizer())
        cb = canonical_form(tb.to_stabilizer())
        ctx.count("canonical:calls", 2)
        same_canon = np.array_equal(ca.table, cb.table) and np.array_equal(ca.phase, cb.phase)
        if same_canon != same_state:
            ctx.violation("canonical_form_not_a_state_invariant", case, {"same_canonical": same_canon, "same_state": same_state, **det},
                          key="canon")
        # canonical form must still describe the same state
        if not gq.stabilizer_tableau_to_ptab(ca).same_group(a):
            ctx.violation("canonical_form_changes_state", case, {"canonical": gq.stabilizer_tableau_to_ptab(ca).labels(), **det},
                          key="canon_state")
    except Exception as e:
        ctx.violation("canonical_raises", case, {"exception": f"{type(e).__name__}: {e}"[:300]}, key="canon_exc")
    # ---- Infidelity metric on stabilizer targets
    if ctx.counters.get("fidelity:calls", 0) % 3 == 0 or same_state or ref == 0:
        from graphiq.state import QuantumState
        from graphiq.metrics import Infidelity
        try:
            v = float(Infidelity(QuantumState(ta.copy(), rep_type="s")).evaluate(QuantumState(tb.copy(), rep_type="s"), None))
            ctx.count("infidelity:calls")
            if abs(v - (1 - ref)) > TOL:
                ctx.violation("infidelity_metric_wrong", case, {"value": v, **det}, key="infid")
        except Exception as e:
            ctx.violation("infidelity_raises", case, {"exception": f"{type(e).__name__}: {e}"[:300]}, key="infid_exc")


def check_metric_reuse(states, dseed, ctx):
    """one Infidelity object used the way a long-lived metric is: many evaluations, its public `target` attribute reassigned
    and the target state evolved in place in between.  Every value must be 1 - |<target now|state>|^2."""
    from graphiq.state import QuantumState
    from graphiq.metrics import Infidelity
    drng = np.random.default_rng(dseed)
    n = states[0].n
    case = {"states": [t.labels() for t in states], "dseed": dseed}
    ctx.case(("reuse", tuple(tuple(t.labels()) for t in states), dseed), True)
    tabs = [gq.ptab_to_clifford(t, drng, random_destab_phase=True) for t in states]
    cur = states[0].copy()
    try:
        met = Infidelity(QuantumState(tabs[0].copy(), rep_type="s"))
        plan = [("eval", 1), ("eval", 2), ("eval", 1), ("target", 2), ("eval", 1), ("eval", 0), ("evolve", None), ("eval", 1), ("eval", 2),
                ("target", 1), ("eval", 1), ("eval", 2)]
        for what, i in plan:
            if what == "target":
                met.target = QuantumState(tabs[i].copy(), rep_type="s")
                cur = states[i].copy()
            elif what == "evolve":
                q = int(drng.integers(n))
                met.target.rep_data.apply_hadamard(q)
                met.target.rep_data.apply_phase(q)
                cur.h(q)
                cur.s(q)
            else:
                v = float(met.evaluate(QuantumState(tabs[i].copy(), rep_type="s"), None))
                ctx.count("metric_reuse:evaluations")
                ref = pauli.overlap_sq(cur, states[i])
                if abs(v - (1 - ref)) > TOL:
                    ctx.violation("infidelity_metric_depends_on_earlier_evaluations", case,
                                  {"value": v, "expected": 1 - ref, "target_now": cur.labels(), "state": states[i].labels(), "plan": plan},
                                  key="infid_reuse")
                    return
    except Exception as e:
        ctx.violation("infidelity_raises", case, {"exception": f"{type(e).__name__}: {e}"[:300], "workload": "metric reuse"}, key="infid_reuse_exc")
