"""C10 - every alternate-target result generates the relabelled target.
Boundary monitor on AlternateTargetSolver.solve (default construction and generated settings); every result entry
(circuit, graph, relabel map) is judged by vlib.mon.generates (all outcome branches by the reference, lock-step compiles on
both backends) against the target relabelled by the entry's map, the listed graph by exhaustive LC orbits, duplicates by
adjacency; tableau / DAG monitors run inside solve()."""
import math
import traceback
import numpy as np

from ..mon.compile import CompileMonitor
from ..mon.tableau import TableauMonitor
from ..mon.dag import DagMonitor
from ..mon import generates
from ..ref import graphs, pauli, dense
from .. import gq

ID = "C10"
LEVEL = "exploration"
RULE = ("connected target graphs on 2..6 (thorough ..7) vertices (random, paths, cycles, stars, complete, repeater graphs; as networkx graph "
        "or graph / stabilizer / density-matrix QuantumState) x settings: default construction AlternateTargetSolver(target); n_iso in "
        "1..4 (<= n!), n_lc in 1..4, lc_method in {None, lc_with_iso, random, random_with_iso, random_with_rep, depth_first, linear (paths), "
        "rgs (repeater graphs)}, lc_orbit_depth, sort_emit, allow_exhaustive, seed; noise off. One evaluation = one solve(); distinct = "
        "distinct (target, setting) digest; non-trivial = the run returned more than one entry or an entry whose graph differs from the target")
ASSUMPTIONS = ["label_map=True is not varied (iso_finder then returns a tuple the solver does not unpack); Monte-Carlo / noise scoring is C06's "
               "subject", "LC-orbit membership by exhaustive orbit (n <= 7); for the dense 8-9 vertex targets by equality of the cut-ranks of all bipartitions (necessary condition only)"]
TIMEOUT = {"quick": 900, "thorough": 7200}
METHODS = [None, "lc_with_iso", "random", "random_with_iso", "random_with_rep", "depth_first", "linear", "rgs"]


def shards(tier, seed):
    return [{"seed": seed, "shard": i, "count": 5 if tier == "quick" else 100, "nmax": 6 if tier == "quick" else 7} for i in range(16)]


def floors(tier):
    f = {"solves": 70, "solves:default_construction": 3, "entries:checked": 120, "entries:graph_differs_from_target": 30, "generates:branches": 200,
         "generates:compiles": 300, "entries:with_conversion_gates": 20, "targets:permuted_node_insertion_order": 5, "result_table:sorted": 30, "solves:with_explicit_empty_noise_map": 8, "solves:dense_8_9_vertices": 12}
    for mth in METHODS:
        f["method:" + str(mth)] = 3
    return f


def run_shard(spec, ctx):
    m = gq.mods()
    state = {"case": None}
    mon = CompileMonitor(None, snapshots=True)
    mon.install()
    TableauMonitor(lambda k, d: ctx.violation("tableau:" + k, dict(state["case"] or {}), d, key=f"tableau:{k}:{d.get('function')}"), None).install()
    DagMonitor(lambda k, d: ctx.violation("dag:" + k, dict(state["case"] or {}), d, key=f"dag:{k}"), None).install()
    for i in range(spec["count"]):
        check_case([spec["seed"], 10, spec["shard"], i], spec["nmax"], ctx, m, mon, state)
    # dense targets on 8-9 vertices (four or more emitters, generators supported on many emitters): the branch of the inner
    # solver that small targets never reach; cheap settings only
    for i in range(1 if spec["count"] <= 5 else 6):
        check_case([spec["seed"], 10, spec["shard"], i, 1], 9, ctx, m, mon, state)


def replay(case, ctx):
    m = gq.mods()
    state = {"case": None}
    mon = CompileMonitor(None, snapshots=True)
    mon.install()
    TableauMonitor(lambda k, d: ctx.violation("tableau:" + k, dict(state["case"] or {}), d, key=f"tableau:{k}:{d.get('function')}"), None).install()
    DagMonitor(lambda k, d: ctx.violation("dag:" + k, dict(state["case"] or {}), d, key=f"dag:{k}"), None).install()
    check_case(case["cseed"], case["nmax"], ctx, m, mon, state)


def gen(rng, nmax):
    from .c16 import repeater_graph
    method = METHODS[int(rng.integers(len(METHODS)))]
    default = rng.random() < 0.2
    if method == "linear":
        n = int(rng.integers(3, nmax + 1))
        A = graphs.named_graphs(n)["path"]
    elif method == "rgs":
        A = repeater_graph(int(rng.integers(2, max(3, nmax // 2 + 1))))
        n = A.shape[0]
    else:
        n = int(rng.integers(2, nmax + 1))
        fam = int(rng.integers(4))
        if fam == 0:
            A = graphs.random_connected_graph(rng, n, 0.3)
        elif fam == 1:
            A = graphs.random_connected_graph(rng, n, 0.6)
        elif fam == 2:
            A = list(graphs.named_graphs(n).values())[int(rng.integers(4))]
        else:
            A = graphs.relabel(graphs.random_connected_graph(rng, n, 0.4), [int(v) for v in rng.permutation(n)])
        if n == 2:
            A = graphs.named_graphs(2)["path"]
    rep = ["nx", "g", "s", "dm"][int(rng.integers(4))] if n <= 5 else ["nx", "g", "s"][int(rng.integers(3))]
    setting = None
    if not default:
        setting = {"n_iso_graphs": int(min(math.factorial(n), rng.integers(1, 5))), "n_lc_graphs": int(rng.integers(1, 5)), "lc_method": method,
                   "lc_orbit_depth": [None, 1, 2][int(rng.integers(3))], "sort_emit": bool(rng.integers(2)), "allow_exhaustive": bool(rng.integers(2)),
                   "rel_inc_thresh": [0.1, 0.3][int(rng.integers(2))]}
    return A, rep, setting, [None, 0, 1, int(rng.integers(1000))][int(rng.integers(4))], default


def check_case(cseed, nmax, ctx, m, mon, state):
    from graphiq.solvers.alternate_target_solver import AlternateTargetSolver, AlternateTargetSolverSetting
    rng = np.random.default_rng(cseed)
    A, rep, setting, seed, default = gen(rng, nmax)
    if len(cseed) == 5:
        n = int(rng.integers(8, 10))
        A = graphs.random_connected_graph(rng, n, [0.5, 0.6][int(rng.integers(2))])
        rep = ["nx", "g", "s"][int(rng.integers(3))]
        default = rng.random() < 0.3
        setting = None if default else {"n_iso_graphs": 1, "n_lc_graphs": int(rng.integers(1, 3)), "lc_method": [None, "lc_with_iso", "random"][int(rng.integers(3))],
                                        "lc_orbit_depth": None, "sort_emit": bool(rng.integers(2)), "allow_exhaustive": False, "rel_inc_thresh": 0.2}
        ctx.count("solves:dense_8_9_vertices")
    n = A.shape[0]
    np.random.seed(int(rng.integers(2 ** 31)))
    case = {"cseed": cseed, "nmax": nmax, "adj": A.tolist(), "presentation": rep, "setting": setting, "solver_seed": seed, "default_construction": default}
    state["case"] = case
    ctx.count("solves")
    ctx.count("method:" + (str(setting["lc_method"]) if setting else "default"))
    if default:
        ctx.count("solves:default_construction")
    # node labels are inserted in a permuted order in a third of the graph-typed targets: qubit i is the i-th inserted
    # node, the relabel map is keyed by node label
    order = None
    if rep in ("nx", "g") and rng.random() < 0.35:
        order = [int(v) for v in rng.permutation(n)]
        case["node_insertion_order"] = order
        ctx.count("targets:permuted_node_insertion_order")
    g = gq.nx_from_adj(A, order)
    if rep == "nx":
        target = g
    else:
        target = m["QuantumState"](g.copy(), rep_type="g")
        if rep != "g":
            target.convert_representation(rep)
    try:
        if default:
            solver = AlternateTargetSolver(target)
        else:
            nkw = {}
            if n <= 5 and (int(A.sum()) + (seed or 0) + len(repr(setting))) % 4 == 0:
                # an explicit, empty noise map: the solver then returns the copies made by assign_noise (scored by the noise
                # compiler); with nothing in the map they must generate the relabelled target like any other entry
                nkw = {"noise_model_mapping": {"e": {}, "p": {}, "ee": {}, "ep": {}}}
                ctx.count("solves:with_explicit_empty_noise_map")
                case["noise_model_mapping"] = "explicit empty dict"
            solver = AlternateTargetSolver(target, solver_setting=AlternateTargetSolverSetting(**setting), seed=seed, **nkw)
        mon.pop_runs()
        results = solver.solve()
    except AssertionError as e:
        if "more than the maximum possible" in str(e):
            ctx.reject("n_iso > n!")
            return
        results = e
    except Exception as e:
        results = e
    if isinstance(results, Exception):
        e = results
        tb = traceback.extract_tb(e.__traceback__)
        where = tb[-1].name if tb else "?"
        ctx.case((A.tobytes(), repr(setting), rep), True)
        ctx.violation("solve_raises", case, {"exception": f"{type(e).__name__}: {e}"[:300], "raised_in": where},
                      key=f"solve_exc:{'default' if default else 'setting'}:{type(e).__name__}:{where}")
        return
    mon.pop_runs()
    graphs_seen = []
    nontrivial = len(results) > 1
    orbit_cache = {}
    for k, (circ, info) in enumerate(results):
        ctx.count("entries:checked")
        entry = {"index": k}
        try:
            G = gq.adj_from_nx(info["g"], nodelist=range(n))
            rmap = dict(info["map"])
            rmap.pop(-1, None)
            rmap = {int(a): int(b) for a, b in rmap.items()}
        except Exception as e:
            ctx.violation("result_entry_malformed", case, {**entry, "exception": f"{type(e).__name__}: {e}"[:200]}, key="entry_malformed")
            continue
        if sorted(rmap.keys()) != list(range(n)) or sorted(rmap.values()) != list(range(n)):
            ctx.violation("relabel_map_is_not_a_bijection", case, {**entry, "map": rmap}, key="map_bijection")
            continue
        # the target renamed by the map: label u (an edge list over labels) goes to position rmap[u]
        labels = list(range(n)) if order is None else order        # label of the i-th inserted node; A is in insertion order
        B = np.zeros((n, n), dtype=int)
        for i in range(n):
            for j in range(n):
                if A[i, j]:
                    B[rmap[labels[i]], rmap[labels[j]]] = 1
        if not np.array_equal(G, A):
            nontrivial = True
            ctx.count("entries:graph_differs_from_target")
        if any(type(op).__name__ in ("Hadamard", "Phase", "PhaseDagger", "SigmaX", "SigmaZ") for op in circ.sequence() if getattr(op, "reg_type", None) == "p"):
            ctx.count("entries:with_conversion_gates")
        X, Z, K = graphs.graph_stabilizers(B)
        viol = generates.check(circ, pauli.PTab(X, Z, K), m, mon, np_seed=k, count=ctx.count,
                               backends=("StabilizerCompiler", "DensityMatrixCompiler") if n <= 4 else ("StabilizerCompiler",))
        for kind, detail in viol:
            ctx.violation("entry_circuit_" + kind, case, {**entry, "relabelled_target": B.tolist(), "listed_graph": G.tolist(), "map": rmap, **detail},
                          key=f"entry:{kind}")
        # listed graph LC-equivalent to the relabelled target
        key = B.tobytes()
        if n > 7:
            # no exhaustive orbit at this size: the cut-rank of every bipartition is an LC invariant (necessary condition only)
            same_ranks = np.array_equal(G, B) or all(graphs.cut_rank(G, [v for v in range(n) if (c >> v) & 1]) == graphs.cut_rank(B, [v for v in range(n) if (c >> v) & 1])
                                                      for c in range(1, 1 << (n - 1)))
            ctx.count("entries:lc_judged_by_cut_ranks_only")
            not_lc = not same_ranks
        else:
            if key not in orbit_cache:
                orbit_cache[key] = graphs.orbit(B)
            not_lc = graphs.adj_to_code(G) not in orbit_cache[key]
        if not_lc:
            ctx.violation("listed_graph_not_lc_equivalent_to_relabelled_target", case, {**entry, "listed_graph": G.tolist(), "relabelled_target": B.tolist()},
                          key="entry:graph_not_in_orbit")
        if any(np.array_equal(G, H) for H in graphs_seen):
            ctx.violation("two_entries_list_the_same_graph", case, {**entry, "listed_graph": G.tolist()}, key="entry:duplicate_graph")
        graphs_seen.append(G)
    # solver.result columns match the returned list
    try:
        res = solver.result
        ok = len(res) == len(results) and all(res["circuit"][i] is results[i][0] and res["g"][i] is results[i][1]["g"] and res["map"][i] == results[i][1]["map"]
                                              for i in range(len(results)))
        if not ok:
            ctx.violation("solver_result_does_not_match_returned_list", case, {"len_result": len(res), "len_returned": len(results)}, key="result_columns")
    except Exception as e:
        ctx.violation("solver_result_unreadable", case, {"exception": f"{type(e).__name__}: {e}"[:200]}, key="result_exc")
    # the result table re-ordered through its own API: every row must stay one entry (circuit, listed graph, map together)
    try:
        res = solver.result
        if len(res) >= 2:
            perm = [int(v) for v in np.random.default_rng(seed if isinstance(seed, int) else 0).permutation(len(res))]
            res.add_properties("tag")
            res["tag"] = list(range(len(res)))
            res["score"] = [0.001 * (1 + perm[i]) for i in range(len(res))]      # distinct keys, not yet in order
            res.sort_by("score")
            ctx.count("result_table:sorted")
            rows_ok = all(res["circuit"][i] is results[res["tag"][i]][0] and res["g"][i] is results[res["tag"][i]][1]["g"]
                          and res["map"][i] == results[res["tag"][i]][1]["map"] and res["circuit_id"][i] == f"c{res['tag'][i]}"
                          for i in range(len(res)))
            if not rows_ok or sorted(res["tag"]) != list(range(len(res))) or list(res["score"]) != sorted(res["score"]):
                ctx.violation("sorting_the_result_table_mixes_entries", case, {"tags_after_sort": list(res["tag"]), "scores_after_sort": list(res["score"])},
                              key="result_sort")
    except Exception as e:
        ctx.violation("solver_result_unreadable", case, {"exception": f"{type(e).__name__}: {e}"[:200], "step": "sort_by"}, key="result_sort_exc")
    if len(results) == 0:
        ctx.violation("no_result_entries", case, {}, key="empty_result")
    ctx.case((A.tobytes(), repr(setting), rep, seed), nontrivial,
             {"target": A.tolist(), "setting": setting, "entries": len(results)} if ctx.evaluations % 8 == 0 else None)
