"""C14 - exporting a circuit and importing it back yields the same circuit; the openQASM text means what graphiq means.
Boundary monitors on to_openqasm / from_openqasm / to_json / from_json; the exported text is also read by a standard
openQASM 2 reader (qiskit.qasm2 -> vlib.ref.qasm) and simulated branch by branch against the reference semantics of the
harness' specification; export determinism is checked in-process, on copies and across processes with another
PYTHONHASHSEED."""
import json
import os
import subprocess
import sys
import numpy as np

from ..gen import programs
from ..gen.programs import CLS
from ..ref import circsim, dense, pauli
from .. import gq, boot

ID = "C14"
LEVEL = "exploration"
RULE = ("random circuits over {H,X,Y,Z,P,Pdag,I, wrappers of 1-4 of them, CNOT, CZ, classical CNOT/CZ, measure-CNOT-and-reset, Z-measure} on "
        "0-4 emitters, 0-4 photons, 0-3 classical registers (plus circuits with register indices >= 10), built by add and insert_at. "
        "One evaluation = one circuit through one of {openQASM round trip, JSON round trip, standard-reader semantics, determinism}. "
        "distinct = distinct (program, check) digest; non-trivial = the circuit has >= 2 operations")
ASSUMPTIONS = ["qiskit.qasm2.loads is a standard openQASM 2.0 reader (gate definitions expanded to U / CX and interpreted by vlib.ref.dense)",
               "equality of circuits = equal registers and, per quantum register, equal sequences of unwrapped identity-free operations "
               "(class, registers, register-type attributes the compilers read, classical register)"]
TIMEOUT = {"quick": 900, "thorough": 7200}
ALPHABET = programs.ONEQ + ["W", "W", "CNOT", "CNOT", "CZ", "cCNOT", "cCZ", "MZ", "MR", "MR"]


def shards(tier, seed):
    return [{"seed": seed, "shard": i, "count": 60 if tier == "quick" else 1500} for i in range(16)]


def floors(tier):
    return {"qasm_roundtrip": 500, "json_roundtrip": 500, "standard_reader:circuits": 300, "standard_reader:branches": 500,
            "determinism:in_process": 500, "determinism:other_process_other_hashseed": 100, "programs:with_wrapper": 200,
            "programs:with_MR": 150, "programs:register_index>=10": 10, "programs:with_Pdag": 150, "state_compare": 300,
            "programs:edited_before_export": 200, "programs:with_replaced_operation": 120}


def wire_signatures_from_circuit(circ):
    """per quantum register: list of (class, regs, register-type attributes, c_register) of unwrapped identity-free operations"""
    out = {}
    regs = circ.register
    for t in ("e", "p"):
        for i in range(len(regs[t])):
            sig = []
            for e in programs.wire_edges(circ, t, i)[:-1]:
                op = circ.dag.nodes[e[1]]["op"]
                for u in op.unwrap():
                    name = type(u).__name__
                    if name == "Identity":
                        continue
                    q = tuple(zip(u.q_registers_type, u.q_registers))
                    if hasattr(u, "control"):
                        attrs = ((u.control_type, u.control), (u.target_type, u.target))
                    else:
                        attrs = ((u.reg_type, u.register),)
                    c = getattr(u, "c_register", None) if len(u.c_registers) else None
                    creg = u.c_registers[0] if len(u.c_registers) else None
                    sig.append((name, q, attrs, creg, c))
            out[(t, i)] = sig
    return out


def wire_signatures_from_spec(prog):
    out = {}
    for w, ids in prog.wires.items():
        if w[0] == "c":
            continue
        sig = []
        for i in ids:
            o = prog.ops[i]
            if o.kind == "W":
                for g in reversed(o.gates):
                    if g != "I":
                        sig.append((CLS[g], (w,), (w,), None, None))
            elif o.kind == "I":
                continue
            else:
                sig.append((CLS[o.kind], tuple(o.q), tuple(o.q), o.c, o.c))
        out[w] = sig
    return out


def gen(rng):
    mode = rng.random()
    if mode < 0.06:
        # register indices >= 10
        n_p, n_e, n_c = int(rng.integers(10, 13)), int(rng.integers(0, 3)), int(rng.integers(0, 3))
        if rng.random() < 0.3:
            n_e, n_p = n_p, n_e
        L = int(rng.integers(2, 14))
    else:
        while True:
            n_e, n_p = int(rng.integers(0, 5)), int(rng.integers(0, 5))
            if 1 <= n_e + n_p <= 6:
                break
        n_c = int(rng.integers(0, 4))
        L = int(rng.integers(0, 22))
    prog, circ = programs.random_program(rng, n_e, n_p, n_c, L, alphabet=ALPHABET, adversarial=True)
    prog.edits = []
    if rng.random() < 0.4:
        # the circuit has a history before it is exported: operations replaced (also by gate kinds it never contained), removed,
        # wrappers merged or split
        prog.edits = programs.random_edits(prog, circ, rng, int(rng.integers(1, 5)))
    return prog, circ


def run_shard(spec, ctx):
    rng0 = np.random.default_rng([spec["seed"], 14, spec["shard"]])
    batch = []
    for i in range(spec["count"]):
        pseed = [spec["seed"], 14, spec["shard"], i]
        text = check_program(pseed, ctx)
        if text is not None and i % 4 == 0:
            batch.append((pseed, text))
    cross_process(batch, ctx)


def replay(case, ctx):
    text = check_program(case["pseed"], ctx)
    if case.get("cross_process") and text is not None:
        cross_process([(case["pseed"], text)], ctx)


def _exc(e):
    return f"{type(e).__name__}: {e}"[:300]


def final_states(circ, n):
    """forced-outcome compiles used to compare an imported circuit with the original"""
    m = gq.mods()
    out = {}
    for backend in ("StabilizerCompiler",) + (("DensityMatrixCompiler",) if n <= 6 else ()):
        for det in (0, 1):
            comp = m[backend]()
            comp.measurement_determinism = det
            st = comp.compile(circ)
            out[(backend, det)] = np.array(st.rep_data.data) if backend.startswith("Density") else gq.clifford_stab_ptab(st.rep_data.data)
    return out


def same_states(a, b):
    for k in a:
        if isinstance(a[k], np.ndarray):
            if not np.allclose(a[k], b[k], atol=1e-8, rtol=0):
                return False, k
        elif not pauli.same_group_fast(a[k], b[k]):
            return False, k
    return True, None


def check_program(pseed, ctx):
    from graphiq.circuit.circuit_dag import CircuitDAG
    rng = np.random.default_rng(pseed)
    prog, circ = gen(rng)
    kinds = [o.kind for o in prog.live_ops()]
    n = prog.n_q
    case = {"pseed": pseed, "program": [o.text() for o in prog.live_ops()], "registers": [prog.n_e, prog.n_p, prog.n_c], "edits_before_export": prog.edits}
    nontrivial = len(kinds) >= 2
    if prog.edits:
        ctx.count("programs:edited_before_export")
    if any(e.startswith("replace") for e in prog.edits):
        ctx.count("programs:with_replaced_operation")
    if "W" in kinds:
        ctx.count("programs:with_wrapper")
    if "MR" in kinds:
        ctx.count("programs:with_MR")
    if "Pdag" in kinds or any("Pdag" in (o.gates or []) for o in prog.live_ops()):
        ctx.count("programs:with_Pdag")
    if max(prog.n_e, prog.n_p) > 10:
        ctx.count("programs:register_index>=10")
    want_sig = wire_signatures_from_spec(prog)
    want_regs = (prog.n_e, prog.n_p, prog.n_c)
    orig_states = None
    # ------------------------------------------------------------------ export (determinism in process / on a copy)
    try:
        text = circ.to_openqasm()
        text2 = circ.to_openqasm()
        text3 = circ.copy().to_openqasm()
    except Exception as e:
        ctx.case((tuple(prog.text()), "export"), nontrivial)
        ctx.violation("to_openqasm_raises", case, {"exception": _exc(e)}, key="export_exc")
        return None
    ctx.count("determinism:in_process")
    ctx.case((tuple(prog.text()), "determinism"), nontrivial)
    if text != text2 or text != text3:
        ctx.violation("export_not_deterministic", case, {"which": "second export" if text != text2 else "export of a copy"}, key="export_nondet")
    # ------------------------------------------------------------------ openQASM round trip
    ctx.count("qasm_roundtrip")
    ctx.case((tuple(prog.text()), "qasm"), nontrivial, {"program": prog.text(), "openqasm": text.splitlines()[-12:]} if ctx.counters.get("qasm_roundtrip", 0) % 150 == 1 else None)
    imported = None
    try:
        imported = CircuitDAG.from_openqasm(text)
    except Exception as e:
        ctx.violation("from_openqasm_raises", case, {"exception": _exc(e), "text_tail": text.splitlines()[-8:]},
                      key="qasm_import_exc:" + ("Pdag" if ("sdg" in text) else type(e).__name__))
    if imported is not None:
        compare_import(prog, circ, imported, want_sig, want_regs, "openqasm", case, ctx, n)
    # ------------------------------------------------------------------ JSON round trip
    ctx.count("json_roundtrip")
    ctx.case((tuple(prog.text()), "json"), nontrivial)
    try:
        data = json.loads(json.dumps(circ.to_json()))
    except Exception as e:
        ctx.violation("to_json_raises", case, {"exception": _exc(e)}, key="json_export_exc")
        data = None
    if data is not None:
        try:
            imported = CircuitDAG.from_json(data)
        except Exception as e:
            unnamed = sorted({o["type"] if o["type"] else "null" for o in data["ops"]})
            ctx.violation("from_json_raises", case, {"exception": _exc(e), "op_types": unnamed}, key="json_import_exc:" + type(e).__name__)
            imported = None
        if imported is not None:
            compare_import(prog, circ, imported, want_sig, want_regs, "json", case, ctx, n)
    # ------------------------------------------------------------------ standard reader semantics
    if n <= 6:
        from ..ref.qasm import QasmProgram
        ctx.count("standard_reader:circuits")
        ctx.case((tuple(prog.text()), "reader"), nontrivial)
        try:
            qp = QasmProgram(text)
        except Exception as e:
            ctx.violation("standard_reader_rejects_export", case, {"exception": _exc(e), "text_tail": text.splitlines()[-8:]}, key="reader_reject")
            return text
        if (qp.n_e, qp.n_p, qp.n_c) != want_regs:
            ctx.violation("standard_reader_sees_other_registers", case, {"reader": [qp.n_e, qp.n_p, qp.n_c], "expected": list(want_regs)}, key="reader_regs")
            return text
        ids = {id(o.obj): o for o in prog.ops}
        order = [ids[id(op)] for op in circ.sequence() if id(op) in ids]
        measuring = [o for o in order if o.kind in ("MZ", "MR", "cCNOT", "cCZ")]
        for outs, prob, st in circsim.branches(prog.ops, prog.n_p, prog.n_e, prog.n_c, order, max_branches=8):
            ctx.count("standard_reader:branches")
            seq = [outs[o.id] for o in measuring]
            try:
                rho, creg = qp.run(seq)
            except ZeroDivisionError:
                ctx.violation("standard_reader_branch_impossible", case, {"outcomes": seq}, key="reader_branch")
                break
            if not np.allclose(rho, st.rho, atol=1e-8, rtol=0):
                wrappers = [o.text() for o in order if o.kind == "W"]
                ctx.violation("openqasm_text_denotes_another_state", case, {"outcomes": seq, "max_abs_diff": float(np.max(np.abs(rho - st.rho))),
                                                                            "wrappers": wrappers[:6]}, key="reader_state")
                break
            if list(creg) != list(st.creg):
                ctx.violation("openqasm_text_denotes_another_classical_record", case, {"outcomes": seq, "reader": creg, "expected": st.creg}, key="reader_creg")
                break
    return text


def compare_import(prog, circ, imported, want_sig, want_regs, how, case, ctx, n):
    regs = imported.register
    got_regs = (len(regs["e"]), len(regs["p"]), len(regs["c"]))
    if got_regs != want_regs:
        ctx.violation("roundtrip_register_counts_differ", case, {"via": how, "got": list(got_regs), "expected": list(want_regs)}, key=f"{how}_regs")
        return
    try:
        got_sig = wire_signatures_from_circuit(imported)
    except Exception as e:
        ctx.violation("imported_circuit_not_walkable", case, {"via": how, "exception": _exc(e)}, key=f"{how}_walk")
        return
    for w in want_sig:
        g, e = got_sig[w], want_sig[w]
        if [x[:2] + x[3:4] for x in g] != [x[:2] + x[3:4] for x in e]:
            ctx.violation("roundtrip_operations_differ", case, {"via": how, "wire": f"{w[0]}{w[1]}", "got": [x[0] for x in g], "expected": [x[0] for x in e]},
                          key=f"{how}_ops")
            return
        for x in g:
            if x[2] != x[1] or x[4] != x[3]:
                ctx.violation("roundtrip_operation_attributes_stale", case, {"via": how, "wire": f"{w[0]}{w[1]}", "operation": x[0],
                                                                             "q_registers": [list(q) for q in x[1]], "attributes_compilers_read": [list(q) for q in x[2]],
                                                                             "c_registers": x[3], "c_register_attr": x[4]}, key=f"{how}_attrs")
                return
    if n <= 7:
        ctx.count("state_compare")
        try:
            a = final_states(circ, n)
            b = final_states(imported, n)
            ok, which = same_states(a, b)
            if not ok:
                ctx.violation("roundtrip_changes_compiled_state", case, {"via": how, "config": list(map(str, which))}, key=f"{how}_state")
        except Exception as e:
            ctx.violation("imported_circuit_does_not_compile", case, {"via": how, "exception": _exc(e)}, key=f"{how}_compile")


CHILD = r"""
import sys, json
sys.path[:0] = [%r, %r]
from vlib import boot
boot.import_graphiq()
import numpy as np
from vlib.props import c14
out = []
for pseed in json.load(sys.stdin):
    rng = np.random.default_rng(pseed)
    prog, circ = c14.gen(rng)
    out.append(circ.to_openqasm())
print("@@" + json.dumps(out))
"""


def cross_process(batch, ctx):
    if not batch:
        return
    env = boot.child_env({"PYTHONHASHSEED": "4242"})
    r = subprocess.run([boot.PY, "-c", CHILD % (boot.REPO, boot.VERIF)], input=json.dumps([p for p, _ in batch]), capture_output=True, text=True,
                       env=env, timeout=600)
    line = [l for l in r.stdout.splitlines() if l.startswith("@@")]
    if r.returncode != 0 or not line:
        ctx.note("cross-process export child failed: " + r.stderr[-300:])
        return
    texts = json.loads(line[0][2:])
    for (pseed, text), other in zip(batch, texts):
        ctx.count("determinism:other_process_other_hashseed")
        ctx.case((tuple(pseed), "xproc"), True)
        if text != other:
            a, b = text.splitlines(), other.splitlines()
            diff = [(x, y) for x, y in zip(a, b) if x != y][:3]
            ctx.violation("export_differs_between_processes", {"pseed": pseed, "cross_process": True}, {"first_differences": diff, "lengths": [len(a), len(b)]},
                          key="export_xproc")
