"""C12 - the circuit DAG stays structurally consistent under any edit history.
Edit histories (descriptors, replayable) are applied through the public CircuitDAG API while the harness keeps an
independent specification (vlib.gen.programs.Program).  After every edit vlib.mon.dag.check() walks the live object:
acyclic, sources/sinks, one path per wire visiting exactly the right operations in the specified order, edge_dict /
node_dict agree with the graph, sequence() topological, depth / register_depth vs the oracle's dynamic programme,
register counts.  A DagMonitor probe re-checks after edits made inside graphiq (copy, assign_noise, metrics)."""
import itertools
import numpy as np

from ..gen import programs
from ..gen.programs import Program, make_gq_op, wire_edges, ONEQ
from ..mon import dag as dagmon

from .. import suite

ID = "C12"
LEVEL = "exploration"
RULE = ("edit histories over the CircuitDAG API {add, insert_at (on edges the circuit reports compatible), remove_op, replace_op, "
        "unwrap_nodes, group_one_qubit_gates, remove_identity, add_*_register, copy, assign_noise(empty)} from empty circuits with 0..3 "
        "registers per type: complete enumeration of all histories of length <= 2 (quick) / 3 (thorough) over a fixed alphabet of "
        "concrete edits, plus random histories of length up to 60 (quick) / 200 (thorough) on up to 6 quantum registers with the full "
        "operation alphabet. One evaluation = one history; distinct = distinct descriptor list; non-trivial = history contains a "
        "removal, replacement, insertion or rewrite")
ASSUMPTIONS = ["networkx MultiDiGraph container and is_directed_acyclic_graph / topological_sort", "group_one_qubit_gates on a circuit "
               "with a Z measurement or without any one-qubit gate raises (judged under C13); such a history ends there and only the "
               "structural invariants are checked after the failed edit"]
EXHAUSTIVE_SUBSPACES = {"quick": ["all edit histories of length <= 2 over the fixed 35-edit alphabet"],
                        "thorough": ["all edit histories of length <= 3 over the fixed 35-edit alphabet"]}
TIMEOUT = {"quick": 900, "thorough": 7200}

# fixed alphabet for the exhaustive part (circuit starts with 1 emitter, 2 photons, 1 classical register)
ALPHABET = (
    [["add", "H", [["e", 0]]], ["add", "X", [["p", 0]]], ["add", "I", [["p", 1]]], ["add", "P", [["e", 0]]],
     ["add", "W", [["p", 0]], None, ["H", "P"]], ["add", "W", [["e", 0]], None, ["X", "I", "Pdag"]],
     ["add", "CNOT", [["e", 0], ["p", 0]]], ["add", "CNOT", [["e", 0], ["p", 1]]], ["add", "CZ", [["p", 0], ["p", 1]]],
     ["add", "MR", [["e", 0], ["p", 1]], 0], ["add", "MZ", [["p", 0]], 0], ["add", "cCNOT", [["p", 1], ["e", 0]], 0],
     ["add", "H", [["e", 1]]], ["add", "CNOT", [["e", 1], ["p", 2]]], ["add", "MZ", [["e", 0]], 1]] +
    [["insert", "Z", [["e", 0]], None, None, [0]], ["insert", "Y", [["p", 0]], None, None, [1]], ["insert", "I", [["p", 1]], None, None, [0]],
     ["insert", "W", [["p", 0]], None, ["P", "H"], [0]],
     ["insert2", "CNOT", [["e", 0], ["p", 0]], None, None, [0, 0]], ["insert2", "CNOT", [["e", 0], ["p", 1]], None, None, [1, 0]],
     ["insert2", "CZ", [["p", 0], ["p", 1]], None, None, [1, 1]], ["insert2", "MR", [["e", 0], ["p", 0]], 0, None, [0, 1]]] +
    [["remove", 0], ["remove", 1], ["remove", 2], ["replace", 0], ["replace", 1], ["replace", 0, 0, "same"], ["unwrap"], ["group"], ["remove_identity"],
     ["addreg", "e"], ["addreg", "p"], ["copy"], ["rejected", "replace_other_register", 0], ["rejected", "insert_wrong_edge_count", 1]])


def shards(tier, seed):
    return _own_shards(tier, seed) + suite.shards(tier, seed)


def _own_shards(tier, seed):
    out = []
    L = 2 if tier == "quick" else 3
    n = len(ALPHABET)
    if L == 2:
        out.append({"kind": "exh", "L": 2, "first": list(range(n)), "seed": seed, "shard": 0})
    else:
        for a in range(n):
            out.append({"kind": "exh", "L": 3, "first": [a], "seed": seed, "shard": a})
    for i in range(12 if tier == "quick" else 32):
        out.append({"kind": "random", "count": 40 if tier == "quick" else 500, "lmax": 120 if tier == "quick" else 200, "seed": seed, "shard": i})
    return out


def floors(tier):
    f = _own_floors(tier)
    f.update({"suite:tests_run": 40, "suite:dag:edit:add": 500})
    return f


def _own_floors(tier):
    f = {"histories": 1500, "edits:applied": 15000}
    for e in ("add", "insert", "insert2", "remove", "replace", "unwrap", "group", "remove_identity", "addreg", "copy", "assign_noise", "rejected", "noisy_wrapper_unwrap"):
        f["edit:" + e] = 100
    f["histories:len>=100"] = 1 if tier == "quick" else 200
    f["checks:deep"] = 5000
    f["histories:register_index>=10"] = 20
    return f


class History:
    def __init__(self, ctx, n_e, n_p, n_c):
        from graphiq.circuit.circuit_dag import CircuitDAG
        self.ctx = ctx
        self.prog = Program(n_e, n_p, n_c)
        self.circ = CircuitDAG(n_emitter=n_e, n_photon=n_p, n_classical=n_c)
        self.desc = [["init", n_e, n_p, n_c]]
        self.alive = True
        self.nodes = {}     # spec op id -> node id

    def case(self):
        return {"history": self.desc}

    def verify(self, what):
        self.ctx.count("checks:deep")
        try:
            probs = dagmon.check(self.circ, self.prog, deep=True)
        except Exception as e:
            probs = [f"the checker could not walk the circuit: {type(e).__name__}: {e}"]
        if probs:
            self.ctx.violation("dag_inconsistent", self.case(), {"after": what, "problems": probs[:6]}, key="dag:" + what[0] + ":" + probs[0].split(":")[0][:40])
            self.alive = False
        for src, reg0, counts0, at in self.__dict__.get("sources", []):
            self.ctx.count("copy:source_rechecks")
            try:
                p2 = list(dagmon.check(src, None, deep=True))
                if {k: list(v) for k, v in dict(src.register).items()} != reg0 or (src.n_emitters, src.n_photons, src.n_classical) != counts0:
                    p2.append(f"register sizes of the copied-from circuit changed without an edit on it: {reg0} -> {dict(src.register)}")
            except Exception as e:
                p2 = [f"the checker could not walk the copied-from circuit: {type(e).__name__}: {e}"]
            if p2:
                self.ctx.violation("copy_source_changed_by_edits_on_the_copy", self.case(), {"copied_at_edit": at, "after": what, "problems": p2[:5]},
                                   key="dag:copy_source:" + p2[0].split(":")[0][:40])
                self.alive = False
                self.sources = []
                break
        return not probs

    def node_of(self, op):
        for n, d in self.circ.dag.nodes(data=True):
            if d["op"] is op.obj:
                return n
        return None

    def live_nonio(self):
        return sorted([o for o in self.prog.live_ops()], key=lambda o: o.id)

    def apply(self, d):
        """apply one edit descriptor; returns False if the descriptor is not applicable in the current state"""
        prog, circ, ctx = self.prog, self.circ, self.ctx
        kind = d[0]
        try:
            if kind in ("add", "insert", "insert2"):
                k, q = d[1], [tuple(x) for x in d[2]]
                c = d[3] if len(d) > 3 else None
                gates = d[4] if len(d) > 4 else None
                # registers must exist or be the next one (continuous numbering)
                for (t, i) in q:
                    cnt = {"e": prog.n_e, "p": prog.n_p}[t]
                    if i > cnt or (kind != "add" and i >= cnt):
                        return False
                if c is not None and (c > prog.n_c or (kind != "add" and c >= prog.n_c)):
                    return False
                if len(q) == 2 and q[0] == q[1]:
                    return False
                op = prog.new_op(k, q, c, gates)
                op.obj = make_gq_op(op)
                if len(d) > 6 and d[6]:
                    op.obj.add_labels(d[6])
                if kind == "add":
                    circ.add(op.obj)
                    prog.spec_add(op)
                else:
                    positions, edges, first = [], [], None
                    for j, (t, i) in enumerate(q):
                        we = wire_edges(circ, t, i)
                        pos = d[5][j] % len(we)
                        if j == 1:
                            bad = circ.find_incompatible_edges(first)
                            ok = [x for x in range(len(we)) if we[x] not in bad]
                            if not ok:
                                prog.ops.pop()
                                return False
                            pos = ok[d[5][j] % len(ok)]
                        else:
                            first = we[pos]
                        positions.append(pos)
                        edges.append(we[pos])
                    circ.insert_at(op.obj, edges)
                    prog.spec_insert(op, positions)
            elif kind == "remove":
                live = self.live_nonio()
                if not live:
                    return False
                op = live[d[1] % len(live)]
                node = self.find_node(op)
                if node is None:
                    return False
                circ.remove_op(node)
                prog.remove(op.id)
            elif kind == "replace":
                live = self.live_nonio()
                if not live:
                    return False
                op = live[d[1] % len(live)]
                node = self.find_node(op)
                if node is None:
                    return False
                alt = {"CNOT": "CZ", "CZ": "CNOT", "cCNOT": "cCZ", "cCZ": "MR", "MR": "cCNOT", "MZ": "MZ"}
                if op.kind in ONEQ or op.kind == "W":
                    pool = ["H", "X", "I", "P", "W"]
                    nk = pool[(d[2] if len(d) > 2 else op.id) % len(pool)]
                    gates = ["Z", "H"] if nk == "W" else None
                else:
                    nk, gates = alt[op.kind], None
                if len(d) > 3 and d[3] == "same":
                    nk, gates = op.kind, op.gates     # same class, different custom labels (e.g. the solvers' "Fixed" tag)
                prog.spec_replace(op.id, nk, gates)
                op.obj = make_gq_op(op)
                if len(d) > 3 and d[3]:
                    op.obj.add_labels("Fixed")
                circ.replace_op(node, op.obj)
            elif kind == "unwrap":
                circ.unwrap_nodes()
                prog.spec_unwrap()
            elif kind == "group":
                circ.group_one_qubit_gates()
                prog.spec_group()
            elif kind == "remove_identity":
                circ.remove_identity()
                prog.spec_remove_identity()
            elif kind == "addreg":
                t = d[1]
                {"e": circ.add_emitter_register, "p": circ.add_photonic_register, "c": circ.add_classical_register}[t]()
                prog.add_register(t)
            elif kind == "copy":
                new = circ.copy()
                # continue on the copy: operation objects are new, identities unknown
                probs = dagmon.check(new, None, deep=True)
                if probs:
                    ctx.violation("copy_inconsistent", self.case(), {"problems": probs[:5]}, key="dag:copy")
                # the source of the copy is kept: no edit is applied to it any more, so nothing about it may change while the
                # history goes on on the copy (registers, wires, indexes)
                self.__dict__.setdefault("sources", []).append((circ, {k: list(v) for k, v in dict(circ.register).items()},
                                                                (circ.n_emitters, circ.n_photons, circ.n_classical), len(self.desc)))
                self.sources = self.sources[-2:]    # the two most recent sources stay under observation (bounds the cost of long histories)
                ctx.count("copy:sources_kept")
                self.circ = new
                for o in prog.ops:
                    o.obj = None
            elif kind == "assign_noise":
                noisy = circ.assign_noise({"e": {}, "p": {}, "ee": {}, "ep": {}, "pe": {}, "pp": {}})
                probs = dagmon.check(noisy, None, deep=True)
                if probs:
                    ctx.violation("assign_noise_result_inconsistent", self.case(), {"problems": probs[:5]}, key="dag:assign_noise")
            elif kind == "noisy_wrapper_unwrap":
                # on a copy (the history itself goes on unchanged): a wrapper carrying ONE noise object for the whole wrapper is
                # added on a register and the copy is unwrapped - the carrier Identity that unwrap() emits must sit on that register
                import graphiq.noise.noise_models as nm
                import graphiq.circuit.ops as gops
                qregs = [w for w in prog.wires if w[0] in "ep"]
                if not qregs:
                    return False
                w = qregs[d[1] % len(qregs)]
                c2 = circ.copy()
                noise = [nm.DepolarizingNoise(0.1), nm.PauliError("X"), nm.PhotonLoss(0.1)][d[1] % 3]
                noise.noise_parameters["After gate"] = bool(d[1] % 2)
                c2.add(gops.OneQubitGateWrapper([gops.Hadamard, gops.Phase][: 1 + d[1] % 2], register=w[1], reg_type=w[0], noise=noise))
                before = dict((t, len(v)) for t, v in c2.register.items())
                c2.unwrap_nodes()
                after = dict((t, len(v)) for t, v in c2.register.items())
                probs = dagmon.check(c2, None, deep=True)
                if after != before:
                    probs = [f"register counts changed {before} -> {after}"] + probs
                self.desc.append(d)
                if probs:
                    ctx.violation("dag_inconsistent", self.case(), {"after": d, "problems": probs[:5]}, key="dag:noisy_wrapper_unwrap:" + probs[0].split(":")[0][:40])
                    self.alive = False
                ctx.count("edit:noisy_wrapper_unwrap")
                return True
            elif kind == "rejected":
                # an edit the API documents as rejected (AssertionError / ValueError) on registers that all exist: the circuit
                # must come out exactly as it went in, and the history goes on
                return self.rejected(d)
            else:
                raise ValueError(kind)
        except Exception as e:
            # an edit that raises ends the history; the object must still be structurally consistent
            ctx.count("edit_raised:" + kind + ":" + type(e).__name__)
            self.desc.append(d)
            try:
                probs = dagmon.check(self.circ, None, deep=False)
            except Exception as e2:
                probs = [f"checker could not walk the circuit: {type(e2).__name__}: {e2}"]
            if probs:
                ctx.violation("dag_inconsistent_after_failed_edit", self.case(), {"edit": d, "exception": f"{type(e).__name__}: {e}"[:200], "problems": probs[:5]},
                              key="dag:failed:" + kind)
            self.alive = False
            return True
        self.desc.append(d)
        ctx.count("edit:" + kind)
        ctx.count("edits:applied")
        self.verify(d)
        return True

    def rejected(self, d):
        prog, circ, ctx = self.prog, self.circ, self.ctx
        which, r = d[1], d[2]
        qregs = [w for w in prog.wires if w[0] in "ep"]
        live = self.live_nonio()
        before = (dict((t, len(v)) for t, v in circ.register.items()), circ.dag.number_of_nodes(), circ.dag.number_of_edges(),
                  {k: sorted(map(str, v)) for k, v in circ.node_dict.items() if v})
        try:
            if which == "insert_wrong_edge_count":
                w = qregs[r % len(qregs)]
                op = make_gq_op(Program(prog.n_e, prog.n_p, prog.n_c).new_op("H", [w]))
                we = wire_edges(circ, w[0], w[1])
                call = lambda: circ.insert_at(op, [we[0], we[-1]] if len(we) > 1 else [we[0], we[0]])
            elif which == "insert2_one_edge":
                if len(qregs) < 2:
                    return False
                a, b = qregs[r % len(qregs)], qregs[(r + 1) % len(qregs)]
                op = make_gq_op(Program(prog.n_e, prog.n_p, prog.n_c).new_op("CNOT", [a, b]))
                call = lambda: circ.insert_at(op, [wire_edges(circ, a[0], a[1])[0]])
            elif which == "replace_other_register":
                cand = [o for o in live if (o.kind in ONEQ or o.kind == "W") and o.obj is not None]
                others = [w for w in qregs]
                if not cand or len(others) < 2:
                    return False
                o = cand[r % len(cand)]
                w2 = [w for w in others if w != o.q[0]][r % (len(others) - 1)]
                node = self.node_of(o)
                if node is None:
                    return False
                op = make_gq_op(Program(prog.n_e, prog.n_p, prog.n_c).new_op("X", [w2]))
                call = lambda: circ.replace_op(node, op)
            elif which == "add_skipping_register":
                t = ["e", "p"][r % 2]
                cnt = {"e": prog.n_e, "p": prog.n_p}[t]
                from graphiq.circuit import ops as gops
                op = gops.Hadamard(register=cnt + 1 + r % 3, reg_type=t)
                call = lambda: circ.add(op)
            else:
                return False
        except Exception:
            return False
        raised = None
        try:
            call()
        except Exception as e:
            raised = e
        self.desc.append(d)
        ctx.count("edit:rejected")
        ctx.count("rejected:" + which + (":raised" if raised is not None else ":accepted"))
        after = (dict((t, len(v)) for t, v in circ.register.items()), circ.dag.number_of_nodes(), circ.dag.number_of_edges(),
                 {k: sorted(map(str, v)) for k, v in circ.node_dict.items() if v})
        if raised is not None and after != before:
            changed = [i for i, (x, y) in enumerate(zip(before, after)) if x != y]
            ctx.violation("rejected_edit_changed_the_circuit", self.case(), {"edit": d, "exception": f"{type(raised).__name__}: {raised}"[:200],
                                                                              "changed": [["register counts", "node count", "edge count", "label index"][i] for i in changed]},
                          key="dag:rejected:" + which)
            self.alive = False
            return True
        if raised is None:
            # accepted although documented as rejected: whatever it did, the structure must still be consistent
            try:
                probs = dagmon.check(circ, None, deep=False)
            except Exception as e2:
                probs = [f"checker could not walk the circuit: {type(e2).__name__}: {e2}"]
            if probs:
                ctx.violation("dag_inconsistent_after_edit_documented_as_rejected", self.case(), {"edit": d, "problems": probs[:5]}, key="dag:accepted:" + which)
            self.alive = False        # the specification has no meaning for such an edit
            return True
        self.verify(d)
        return True

    def find_node(self, op):
        if op.obj is not None:
            return self.node_of(op)
        # identity unknown (after copy / unwrap / group): locate by position on its first wire
        w = op.q[0]
        pos = self.prog.wires[w].index(op.id)
        we = wire_edges(self.circ, w[0], w[1])
        return we[pos][1]


def run_shard(spec, ctx):
    if spec.get("kind") == "suite":
        suite.run(ctx, "dag", suite.GROUPS[spec["group"]])
        return
    _own_run_shard(spec, ctx)


def _own_run_shard(spec, ctx):
    if spec["kind"] == "exh":
        for first in spec["first"]:
            for rest in itertools.product(range(len(ALPHABET)), repeat=spec["L"] - 1):
                run_history([ALPHABET[first]] + [ALPHABET[i] for i in rest], (1, 2, 1), ctx)
            if spec["L"] >= 2 and spec["shard"] == 0 or spec["L"] == 2:
                pass
        if spec["shard"] == 0:
            for a in range(len(ALPHABET)):
                run_history([ALPHABET[a]], (1, 2, 1), ctx)
            if spec["L"] == 3:
                for a, b in itertools.product(range(len(ALPHABET)), repeat=2):
                    run_history([ALPHABET[a], ALPHABET[b]], (1, 2, 1), ctx)
    else:
        rng = np.random.default_rng([spec["seed"], 12, spec["shard"]])
        for i in range(spec["count"]):
            run_random(rng, spec["lmax"], ctx)


def run_history(descs, regs, ctx):
    h = History(ctx, *regs)
    for d in descs:
        if not h.alive:
            break
        h.apply(d)
    nontriv = any(d[0] not in ("add", "addreg", "init") for d in h.desc)
    ctx.count("histories")
    ctx.case(repr(h.desc), nontriv, {"history": h.desc} if ctx.evaluations % 3000 == 0 else None)
    return h


def run_random(rng, lmax, ctx):
    n_e, n_p, n_c = int(rng.integers(0, 4)), int(rng.integers(0, 4)), int(rng.integers(0, 3))
    if n_e + n_p == 0:
        n_e = 1
    if rng.random() < 0.12:
        # register indices with two digits (edge keys such as "p11")
        if rng.random() < 0.5:
            n_p = int(rng.integers(11, 14))
        else:
            n_e = int(rng.integers(11, 14))
        ctx.count("histories:register_index>=10")
    h = History(ctx, n_e, n_p, n_c)
    L = int(rng.integers(1, lmax + 1))
    for step in range(L):
        if not h.alive:
            break
        prog = h.prog
        u = rng.random()
        qregs = [w for w in prog.wires if w[0] in "ep"]
        if u < 0.55:
            kind = programs.FULL_ALPHABET[int(rng.integers(len(programs.FULL_ALPHABET)))]
            if kind in ("MZ", "cCNOT", "cCZ", "MR") and prog.n_c == 0:
                kind = "H"
            if kind in ("CNOT", "CZ", "cCNOT", "cCZ", "MR") and len(qregs) < 2:
                kind = "X"
            two = kind in ("CNOT", "CZ", "cCNOT", "cCZ", "MR")
            q = [list(qregs[int(i)]) for i in rng.choice(len(qregs), 2 if two else 1, replace=False)]
            c = int(rng.integers(prog.n_c)) if kind in ("MZ", "cCNOT", "cCZ", "MR") else None
            gates = [ONEQ[int(rng.integers(len(ONEQ)))] for _ in range(int(rng.integers(1, 5)))] if kind == "W" else None
            mode = "add" if rng.random() < 0.5 else ("insert2" if two else "insert")
            h.apply([mode, kind, q, c, gates, [int(rng.integers(1000)), int(rng.integers(1000))], "Fixed" if rng.random() < 0.15 else None])
        elif u < 0.70:
            h.apply(["remove", int(rng.integers(1000))])
        elif u < 0.80:
            h.apply(["replace", int(rng.integers(1000)), int(rng.integers(1000)), [None, "label", "same"][int(rng.integers(3))]])
        elif u < 0.84:
            h.apply(["unwrap"])
        elif u < 0.88:
            # group only where graphiq accepts it (a one-qubit gate exists and no Z measurement) most of the time
            kinds = [o.kind for o in prog.live_ops()]
            if ("MZ" not in kinds and any(k in ONEQ or k == "W" for k in kinds)) or rng.random() < 0.1:
                h.apply(["group"])
        elif u < 0.92:
            h.apply(["remove_identity"])
        elif u < 0.95:
            if prog.n_q < 6:
                h.apply(["addreg", ["e", "p", "c"][int(rng.integers(3))]])
        elif u < 0.97:
            h.apply(["copy"])
        elif u < 0.978:
            h.apply(["noisy_wrapper_unwrap", int(rng.integers(1000))])
        elif u < 0.985:
            h.apply(["rejected", ["insert_wrong_edge_count", "insert2_one_edge", "replace_other_register", "add_skipping_register"][int(rng.integers(4))], int(rng.integers(1000))])
        else:
            h.apply(["assign_noise"])
    ctx.count("histories")
    if len(h.desc) >= 100:
        ctx.count("histories:len>=100")
    nontriv = any(d[0] not in ("add", "addreg", "init") for d in h.desc)
    ctx.case(repr(h.desc), nontriv, {"history": h.desc[:25], "length": len(h.desc)} if ctx.evaluations % 100 == 0 else None)


def replay(case, ctx):
    if "suite_test" in case:
        suite.replay(case, ctx)
        return
    _own_replay(case, ctx)


def _own_replay(case, ctx):
    descs = case["history"]
    init = descs[0]
    h = History(ctx, init[1], init[2], init[3])
    for d in descs[1:]:
        if not h.alive:
            break
        h.apply(d)
