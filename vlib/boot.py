"""Process bootstrap: import path of the tree under test, offline third-party deps, environment."""
import os
import sys
import hashlib
import subprocess

VERIF = os.path.dirname(os.path.dirname(os.path.abspath(__file__)))
REPO = os.path.abspath(os.environ.get("VERIF_REPO", "/repo"))
DEPS = os.path.join(VERIF, ".deps")
PY = "/venv/bin/python"
GUARD = "GRAPHIQ_VERIF"


def child_env(extra=None):
    env = dict(os.environ)
    env["PYTHONPATH"] = os.pathsep.join([REPO, VERIF, DEPS])
    env["PYTHONDONTWRITEBYTECODE"] = "1"
    env.setdefault("PYTHONHASHSEED", "0")
    env["MPLBACKEND"] = "Agg"
    env["VERIF_REPO"] = REPO
    env[GUARD] = "1"
    env.setdefault("OMP_NUM_THREADS", "1")
    env.setdefault("OPENBLAS_NUM_THREADS", "1")
    env.setdefault("MKL_NUM_THREADS", "1")
    if extra:
        env.update(extra)
    return env


def ensure_paths():
    for p in (DEPS, VERIF, REPO):
        if p in sys.path:
            sys.path.remove(p)
    sys.path.insert(0, DEPS)
    sys.path.insert(0, VERIF)
    sys.path.insert(0, REPO)
    sys.dont_write_bytecode = True


def import_graphiq():
    """import graphiq from the tree under test and assert that is where it came from"""
    ensure_paths()
    import warnings
    warnings.filterwarnings("ignore")
    import graphiq  # noqa
    src = os.path.realpath(graphiq.__file__)
    if not src.startswith(os.path.realpath(REPO) + os.sep):
        raise RuntimeError(f"graphiq imported from {src}, not from the tree under test {REPO}")
    return graphiq


def tree_identity():
    out = {"repo": REPO}
    try:
        out["head"] = subprocess.run(["git", "-C", REPO, "rev-parse", "HEAD"], capture_output=True, text=True,
                                     timeout=20).stdout.strip()
        d = subprocess.run(["git", "-C", REPO, "diff", "HEAD", "--", "graphiq"], capture_output=True, timeout=60).stdout
        out["diff_sha1"] = hashlib.sha1(d).hexdigest() if d else "clean"
    except Exception as e:  # not a git tree (scratch copy): hash the sources
        out["head"] = f"n/a ({type(e).__name__})"
    return out


def ensure_deps():
    """icontract from the offline wheelhouse into /verif/.deps (idempotent)"""
    if os.path.isdir(os.path.join(DEPS, "icontract")):
        return True
    os.makedirs(DEPS, exist_ok=True)
    r = subprocess.run([PY, "-m", "pip", "install", "--quiet", "--no-index", "--find-links", "/opt/veriftools/wheels",
                        "--target", DEPS, "icontract"], capture_output=True, text=True)
    return r.returncode == 0
