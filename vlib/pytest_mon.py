"""pytest plug-in: the repository's own test suite as one more workload for the passive monitors.

Loaded with `-p vlib.pytest_mon` (PYTHONPATH = /verif : tree under test).  While the unedited tests run, the tableau monitor
(C07), the DAG monitor (C12) and the compile lock-step monitor (C01) watch every call the tests make; compile runs are judged
at the end of each test against the reference semantics of the program read off the circuit.  Nothing is asserted inside the
tests: refutations and counters are written to the JSON file named by VERIF_PYTEST_OUT, the suite's own verdicts are
ignored (84 of its tests fail in this sandbox for environment reasons; they still drive the monitors).

What the monitors may NOT judge here (counted as skipped, never as violations): compile runs with noise simulation on or an
initial state, circuits with parameterised / non-Clifford operations, runs with more than MAX_Q qubits."""
import json
import os
import time

MAX_Q = 10
STATE = {"test": None, "viol": [], "counts": {}, "tests": 0, "t0": time.time(), "mon": {}}


def _count(key, n=1):
    STATE["counts"][key] = STATE["counts"].get(key, 0) + n


def _report(source):
    def rep(kind, detail):
        _count(f"refuted:{source}:{kind}")
        if len(STATE["viol"]) < 200:
            STATE["viol"].append({"monitor": source, "kind": kind, "test": STATE["test"], "detail": _plain(detail)})
    return rep


def _plain(o, depth=0):
    import numpy as np
    if depth > 6:
        return repr(o)[:200]
    if isinstance(o, dict):
        return {str(k): _plain(v, depth + 1) for k, v in o.items()}
    if isinstance(o, (list, tuple)):
        return [_plain(v, depth + 1) for v in list(o)[:64]]
    if isinstance(o, np.ndarray):
        return o.tolist() if o.size <= 600 else {"shape": list(o.shape)}
    if isinstance(o, (np.integer,)):
        return int(o)
    if isinstance(o, (np.floating,)):
        return float(o)
    if isinstance(o, (str, int, float, bool, type(None))):
        return o
    return repr(o)[:200]


def pytest_configure(config):
    which = set(os.environ.get("VERIF_PYTEST_MONITORS", "tableau,dag,compile").split(","))
    from . import boot
    boot.import_graphiq()
    if "tableau" in which:
        from .mon.tableau import TableauMonitor
        m = TableauMonitor(_report("tableau"), _count)
        m.install()
        STATE["mon"]["tableau"] = m
    if "dag" in which:
        from .mon.dag import DagMonitor
        m = DagMonitor(_report("dag"), _count, deep=False)
        m.install()
        STATE["mon"]["dag"] = m
    if "compile" in which:
        from .mon.compile import CompileMonitor
        class Immediate(CompileMonitor):
            def _c_ret(self, frame, ret):
                super()._c_ret(frame, ret)
                try:
                    _judge_now(self)
                except Exception as e:            # the plug-in must never change what the suite does
                    _count("plugin_error:" + type(e).__name__)

            def _c_unwind(self, frame, exc):
                super()._c_unwind(frame, exc)
                self.pop_runs()

        m = Immediate(_count, snapshots=False)
        m.install()
        STATE["mon"]["compile"] = m


def pytest_runtest_setup(item):
    STATE["test"] = item.nodeid
    STATE["tests"] += 1
    BUDGET["left"] = 300


BUDGET = {"left": 0}


def _judge_now(mon):
    """called when a compile run returns: the program is read off the circuit as it is NOW (solvers go on editing the same
    circuit object afterwards) and the run is judged at once"""
    from .mon.compile import judge
    from .mon import dag as dagmon
    from .gen import programs
    rep = _report("compile")
    for run in mon.pop_runs():
        _count("compile:runs_observed")
        if BUDGET["left"] <= 0:                # a solver test compiles thousands of candidates: judge a prefix per test
            _count("compile:runs_not_judged:over_budget")
            continue
        if run.noise_sim:
            _count("compile:runs_not_judged:noise_simulation")
            continue
        if getattr(run, "initial", None) is not None:
            _count("compile:runs_not_judged:initial_state")
            continue
        if run.raised is not None:
            _count("compile:runs_not_judged:raised:" + type(run.raised).__name__)
            continue
        circ = run.circuit
        try:
            nq = circ.n_quantum
        except Exception:
            _count("compile:runs_not_judged:not_a_circuit")
            continue
        if nq > MAX_Q:
            _count("compile:runs_not_judged:too_large")
            continue
        BUDGET["left"] -= 1
        try:
            if dagmon.check(circ, deep=False):
                _count("compile:runs_not_judged:dag_inconsistent")
                continue
            prog = programs.program_from_circuit(circ)
        except Exception as e:
            _count("compile:runs_not_judged:unreadable:" + type(e).__name__)
            continue
        try:
            v = judge(prog, run, None, check_each=False)
        except Exception as e:
            _count("compile:runs_not_judged:judge_error:" + type(e).__name__)
            continue
        _count("compile:runs_judged")
        _count("compile:runs_judged:" + str(run.compiler))
        for kind, detail in v:
            rep(kind, dict(detail, program=prog.text()[:1500], registers=[prog.n_e, prog.n_p, prog.n_c]))


def pytest_runtest_teardown(item, nextitem):
    cm = STATE["mon"].get("compile")
    if cm is not None:
        cm.pop_runs()
    tm = STATE["mon"].get("tableau")
    if tm is not None:
        tm.stack.clear()
    dm = STATE["mon"].get("dag")
    if dm is not None:
        dm.depth = 0


def pytest_sessionfinish(session, exitstatus):
    out = os.environ.get("VERIF_PYTEST_OUT")
    if not out:
        return
    from . import probes
    data = {"tests_run": STATE["tests"], "wall_s": round(time.time() - STATE["t0"], 1), "counts": STATE["counts"],
            "probe_counts": probes.event_counts(), "violations": STATE["viol"], "pytest_exitstatus": int(exitstatus)}
    with open(out, "w") as f:
        json.dump(data, f)
