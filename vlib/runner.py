"""Runner: shards a property's workload over worker processes, aggregates what the monitors observed, classifies
violations against known_findings.json, writes the evidence file, prints verdict lines, sets the exit code.

exit 0  held on everything explored (KNOWN-FINDING lines allowed)
exit 1  a violation that is not a listed known finding   (VIOLATION property=<id> replay=<path>)
exit 2  inconclusive (coverage floor missed, worker crash / watchdog, oracle self-test failure)
"""
import argparse
import hashlib
import importlib
import json
import os
import shutil
import subprocess
import sys
import tempfile
import time

from . import boot

NPROC = int(os.environ.get("VERIF_NPROC", "16"))


class Ctx:
    """per-worker collector handed to a property driver"""

    MAX_SAMPLES = 6
    MAX_VIOL = 40

    def __init__(self, prop, tier, seed, shard):
        self.prop, self.tier, self.seed, self.shard = prop, tier, seed, shard
        self.evaluations = 0
        self.digests = set()
        self.nontrivial = set()
        self.counters = {}
        self.sets = {}
        self.samples = []
        self.violations = []
        self.n_violations = 0
        self.rejected = 0
        self.notes = []

    # one executed case -------------------------------------------------------------------------
    def case(self, digest, nontrivial=True, sample=None):
        self.evaluations += 1
        h = hashlib.blake2b(repr(digest).encode(), digest_size=8).hexdigest()
        self.digests.add(h)
        if nontrivial:
            self.nontrivial.add(h)
        if sample is not None and len(self.samples) < self.MAX_SAMPLES:
            self.samples.append(sample)
        elif not self.samples and self.evaluations == 1:
            self._fallback_sample = {"case_digest": repr(digest)[:500]}

    def count(self, name, k=1):
        self.counters[name] = self.counters.get(name, 0) + k

    def seen(self, name, value, cap=5000):
        s = self.sets.setdefault(name, set())
        if len(s) < cap:
            s.add(value if isinstance(value, (str, int)) else repr(value))

    def reject(self, why="input rejected by explicit validation"):
        self.rejected += 1
        self.count("rejected:" + why)

    def violation(self, kind, case, detail, key=None):
        """case: JSON-serialisable description sufficient for replay(); detail: what was expected / observed"""
        self.n_violations += 1
        self.count("violation:" + kind)
        if len(self.violations) < self.MAX_VIOL or (key and not any(v.get("key") == key for v in self.violations)):
            self.violations.append({"kind": kind, "case": case, "detail": detail, "key": key})

    def note(self, text):
        if len(self.notes) < 20:
            self.notes.append(text)

    def dump(self):
        return {
            "shard": self.shard, "evaluations": self.evaluations, "digests": sorted(self.digests),
            "nontrivial": sorted(self.nontrivial), "counters": self.counters,
            "sets": {k: sorted(v, key=str)[:5000] for k, v in self.sets.items()},
            "samples": self.samples if self.samples else ([self._fallback_sample] if getattr(self, "_fallback_sample", None) else []),
            "violations": self.violations, "n_violations": self.n_violations, "rejected": self.rejected,
            "notes": self.notes,
        }


def jsonable(o):
    import numpy as np
    if isinstance(o, dict):
        return {str(k): jsonable(v) for k, v in o.items()}
    if isinstance(o, (list, tuple, set)):
        return [jsonable(v) for v in o]
    if isinstance(o, np.ndarray):
        if np.iscomplexobj(o):
            return {"re": np.real(o).tolist(), "im": np.imag(o).tolist()}
        return o.tolist()
    if isinstance(o, (np.integer,)):
        return int(o)
    if isinstance(o, (np.floating,)):
        return float(o)
    if isinstance(o, complex):
        return {"re": o.real, "im": o.imag}
    if isinstance(o, (str, int, float, bool)) or o is None:
        return o
    return repr(o)


def load_known():
    p = os.path.join(boot.VERIF, "known_findings.json")
    if not os.path.exists(p):
        return {}
    with open(p) as f:
        data = json.load(f)
    out = {}
    for e in data.get("findings", []):
        out[(e["property"], e["key"])] = e
    return out


def main(argv=None):
    ap = argparse.ArgumentParser(prog="check")
    ap.add_argument("prop")
    ap.add_argument("--tier", default=os.environ.get("VERIF_TIER", "quick"), choices=["quick", "thorough"])
    ap.add_argument("--seed", type=int, default=int(os.environ.get("VERIF_SEED", "0")))
    ap.add_argument("--replay", default=None)
    ap.add_argument("--repo", default=None)
    ap.add_argument("--nproc", type=int, default=NPROC)
    ap.add_argument("--only-shard", type=int, default=None, help="debug: run one shard in-process")
    args = ap.parse_args(argv)
    if args.repo:
        os.environ["VERIF_REPO"] = os.path.abspath(args.repo)
        boot.REPO = os.path.abspath(args.repo)
    prop = args.prop.upper()
    boot.ensure_paths()
    t0 = time.time()

    if args.replay:
        return replay(prop, args.replay)

    # oracle self-test: a failing oracle makes everything inconclusive
    st = subprocess.run([boot.PY, "-m", "vlib.ref.selftest"], env=boot.child_env(), cwd=boot.VERIF,
                        capture_output=True, text=True)
    if st.returncode != 0:
        print(st.stdout + st.stderr)
        print(f"INCONCLUSIVE property={prop} reason=oracle-self-test-failed")
        return 2

    mod = importlib.import_module(f"vlib.props.{prop.lower()}")
    specs = mod.shards(args.tier, args.seed)
    tmp = tempfile.mkdtemp(prefix=f"verif-{prop}-", dir=os.environ.get("VERIF_TMP"))
    results, failures = [], []
    try:
        pending = list(enumerate(specs))
        running = []
        timeout = getattr(mod, "TIMEOUT", {"quick": 900, "thorough": 5400})[args.tier]
        while pending or running:
            while pending and len(running) < args.nproc:
                i, spec = pending.pop(0)
                spec_path = os.path.join(tmp, f"spec{i}.json")
                out_path = os.path.join(tmp, f"out{i}.json")
                with open(spec_path, "w") as f:
                    json.dump(spec, f)
                extra = dict(getattr(mod, "ENV", {}))
                extra.update(spec.get("env", {}) if isinstance(spec, dict) else {})
                # string hashing (hence the iteration order of sets of strings) differs from shard to shard and seed to seed, so
                # that order-dependent behaviour is explored; the value is recorded in every replay file
                extra.setdefault("PYTHONHASHSEED", str(hashseed_of(args.seed, i)))
                log = open(os.path.join(tmp, f"log{i}.txt"), "w")
                p = subprocess.Popen([boot.PY, "-m", "vlib.worker", prop, args.tier, str(args.seed), str(i),
                                      spec_path, out_path], env=boot.child_env(extra), cwd=boot.VERIF,
                                     stdout=log, stderr=subprocess.STDOUT)
                running.append((i, p, out_path, time.time(), log))
            time.sleep(0.05)
            still = []
            for (i, p, out_path, ts, log) in running:
                rc = p.poll()
                if rc is None:
                    if time.time() - ts > timeout:
                        p.kill()
                        failures.append((i, "watchdog"))
                        log.close()
                    else:
                        still.append((i, p, out_path, ts, log))
                    continue
                log.close()
                if rc != 0 or not os.path.exists(out_path):
                    tail = open(os.path.join(tmp, f"log{i}.txt")).read()[-3000:]
                    failures.append((i, f"worker exit {rc}: {tail}"))
                else:
                    with open(out_path) as f:
                        results.append(json.load(f))
            running = still
    finally:
        shutil.rmtree(tmp, ignore_errors=True)

    return finish(mod, prop, args, results, failures, time.time() - t0)


def hashseed_of(seed, shard):
    return (int(seed) * 1009 + int(shard)) % 4294967295


def finish(mod, prop, args, results, failures, wall):
    digests, nontrivial = set(), set()
    counters, sets, samples, viols, notes = {}, {}, [], [], []
    evaluations = rejected = n_viol = 0
    for r in sorted(results, key=lambda r: r["shard"]):
        evaluations += r["evaluations"]
        rejected += r["rejected"]
        n_viol += r["n_violations"]
        digests.update(r["digests"])
        nontrivial.update(r["nontrivial"])
        for k, v in r["counters"].items():
            counters[k] = counters.get(k, 0) + v
        for k, v in r["sets"].items():
            sets.setdefault(k, set()).update(v)
        for s in r["samples"]:
            if len(samples) < 8:
                samples.append(s)
        for v in r["violations"]:
            v["hashseed"] = hashseed_of(args.seed, r["shard"])
        viols.extend(r["violations"])
        notes.extend(r["notes"])

    known = load_known()
    classify = getattr(mod, "classify", lambda w: w.get("key"))
    new_viol, known_hits = [], {}
    for w in viols:
        key = classify(w)
        e = known.get((prop, key)) if key else None
        if e is not None and e.get("status") == "open":
            known_hits.setdefault(key, []).append(w)
        else:
            new_viol.append(w)

    inconclusive = []
    if failures:
        inconclusive.append("worker failures: " + "; ".join(f"shard {i}: {why[:400]}" for i, why in failures[:3]))
    floors = mod.floors(args.tier) if hasattr(mod, "floors") else {}
    for name, minimum in floors.items():
        if name.startswith("set:"):
            have = len(sets.get(name[4:], ()))
        elif name == "evaluations":
            have = evaluations
        elif name == "distinct_nontrivial":
            have = len(nontrivial)
        else:
            have = counters.get(name, 0)
        if have < minimum:
            inconclusive.append(f"coverage floor {name}: {have} < {minimum}")

    coverage = {
        "evaluations": evaluations,
        "distinct_nontrivial": len(nontrivial),
        "distinct_cases": len(digests),
        "rule": getattr(mod, "RULE", ""),
        "samples": samples if samples else [],
        "exhaustive": bool(getattr(mod, "EXHAUSTIVE", {}).get(args.tier, False)),
        "exhaustive_subspaces": getattr(mod, "EXHAUSTIVE_SUBSPACES", {}).get(args.tier, []),
        "counters": dict(sorted(counters.items())),
        "distinct_values_seen": {k: len(v) for k, v in sorted(sets.items())},
        "values_seen_examples": {k: sorted(v, key=str)[:12] for k, v in sorted(sets.items())},
        "rejected": rejected,
        "known_findings_hit": {k: len(v) for k, v in known_hits.items()},
        "coverage_floors": floors,
        "inconclusive_reasons": inconclusive,
        "notes": notes[:20],
        "tree": boot.tree_identity(),
        "shards": len(results),
    }
    ev = {
        "property_id": prop, "tier": args.tier, "seed": args.seed,
        "level": getattr(mod, "LEVEL", "exploration"),
        "coverage": coverage,
        "assumptions": getattr(mod, "ASSUMPTIONS", []),
        "wall_s": round(wall, 2),
        "violations": len(new_viol) if not new_viol else n_viol - sum(len(v) for v in known_hits.values()),
        "verdict": "violated" if new_viol else ("inconclusive" if inconclusive else "held-on-observed"),
    }
    evdir = os.path.join(boot.VERIF, "evidence")
    if os.environ.get("VERIF_KEEP_EVIDENCE"):  # mutation runs against scratch copies must not replace real evidence
        evdir = os.path.join(boot.VERIF, ".tmp", "evidence-scratch")
    os.makedirs(evdir, exist_ok=True)
    with open(os.path.join(evdir, f"{prop}.json"), "w") as f:
        json.dump(jsonable(ev), f, indent=1, sort_keys=False)
        f.write("\n")

    print(f"[{prop}] tier={args.tier} seed={args.seed} evaluations={evaluations} distinct_nontrivial={len(nontrivial)} "
          f"rejected={rejected} wall={wall:.1f}s")
    for k in sorted(counters):
        if not k.startswith("violation:"):
            print(f"   {k} = {counters[k]}")
    for key, ws in sorted(known_hits.items()):
        e = known[(prop, key)]
        print(f"KNOWN-FINDING: property={prop} {key}: {e['what']} ({len(ws)} witnesses this run)")
    if new_viol:
        os.makedirs(os.path.join(boot.VERIF, "replays"), exist_ok=True)
        printed = set()
        for w in new_viol:
            sig = (w["kind"], w.get("key"))
            if sig in printed and len(printed) > 0:
                continue
            printed.add(sig)
            blob = json.dumps(jsonable(w), sort_keys=True)
            h = hashlib.sha1(blob.encode()).hexdigest()[:12]
            path = os.path.join(boot.VERIF, "replays", f"{prop}-{h}.json")
            with open(path, "w") as f:
                json.dump({"property": prop, "tier": args.tier, "seed": args.seed, "witness": jsonable(w)}, f, indent=1)
            print(f"VIOLATION property={prop} replay={path}")
            print(f"   kind={w['kind']} detail={json.dumps(jsonable(w['detail']))[:600]}")
        return 1
    if inconclusive:
        for why in inconclusive:
            print(f"INCONCLUSIVE property={prop} reason={why}")
        return 2
    print(f"HELD property={prop} on {evaluations} observed executions")
    return 0


def replay(prop, path):
    with open(path) as f:
        data = json.load(f)
    w = data["witness"]
    hs = w.get("hashseed")
    if hs is not None and os.environ.get("PYTHONHASHSEED") != str(hs) and not os.environ.get("VERIF_REPLAY_CHILD"):
        # string hashing is fixed at interpreter start: replay in a child started with the recorded value
        env = boot.child_env({"PYTHONHASHSEED": str(hs), "VERIF_REPLAY_CHILD": "1"})
        return subprocess.run([boot.PY, "-m", "vlib.runner", prop, "--replay", path, "--repo", boot.REPO], env=env, cwd=boot.VERIF).returncode
    mod = importlib.import_module(f"vlib.props.{prop.lower()}")
    boot.import_graphiq()
    ctx = Ctx(prop, data.get("tier", "quick"), data.get("seed", 0), -1)
    mod.replay(w["case"], ctx)
    if ctx.violations:
        for v in ctx.violations:
            print(f"VIOLATION property={prop} replay={path}")
            print(f"   kind={v['kind']} detail={json.dumps(jsonable(v['detail']))[:1500]}")
        return 1
    print(f"replay of {path}: no violation reproduced")
    return 0


if __name__ == "__main__":
    sys.exit(main())
