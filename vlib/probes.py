"""sys.monitoring (PEP 669) probe layer: observe calls/returns/unwinds of chosen functions of the tree under test
without patching it.  Hooks are attached to *code objects*, so every call is seen however the callee was bound."""
import sys
import types

_MON = sys.monitoring
_TOOL = 3  # a free tool id (0 debugger, 1 coverage, 2 profiler, 5 optimizer are reserved names)
_E = _MON.events

_active = False
_start_cb = {}   # code -> fn(frame)
_return_cb = {}  # code -> fn(frame, retval)
_unwind_cb = {}  # code -> fn(frame, exc)
counts = {}      # code name -> number of events


def _code_of(f):
    if isinstance(f, (staticmethod, classmethod)):
        f = f.__func__
    if isinstance(f, property):
        f = f.fget
    f = getattr(f, "__wrapped__", f)
    if isinstance(f, types.MethodType):
        f = f.__func__
    return f.__code__


def _on_start(code, offset):
    cb = _start_cb.get(code)
    if cb is not None:
        counts[code.co_qualname] = counts.get(code.co_qualname, 0) + 1
        cb(sys._getframe(1))


def _on_return(code, offset, retval):
    cb = _return_cb.get(code)
    if cb is not None:
        cb(sys._getframe(1), retval)


def _on_unwind(code, offset, exc):
    cb = _unwind_cb.get(code)
    if cb is not None:
        cb(sys._getframe(1), exc)


def _ensure():
    global _active
    if _active:
        return
    if _MON.get_tool(_TOOL) is None:
        _MON.use_tool_id(_TOOL, "verif-probes")
    _MON.register_callback(_TOOL, _E.PY_START, _on_start)
    _MON.register_callback(_TOOL, _E.PY_RETURN, _on_return)
    _MON.register_callback(_TOOL, _E.PY_UNWIND, _on_unwind)
    # PY_UNWIND is not a local event in CPython 3.12: it is enabled globally and filtered by code object in _on_unwind
    _MON.set_events(_TOOL, _E.PY_UNWIND)
    _active = True


def hook(func, on_start=None, on_return=None, on_unwind=None):
    """attach callbacks to a function / method of the tree under test.
    on_start(frame), on_return(frame, retval), on_unwind(frame, exc);  frame.f_locals gives arguments / locals."""
    _ensure()
    code = _code_of(func)
    ev = 0
    if on_start is not None or True:
        _start_cb[code] = on_start if on_start is not None else (lambda fr: None)
        ev |= _E.PY_START
    if on_return is not None:
        _return_cb[code] = on_return
        ev |= _E.PY_RETURN
    if on_unwind is not None:
        _unwind_cb[code] = on_unwind
    _MON.set_local_events(_TOOL, code, ev)
    counts.setdefault(code.co_qualname, 0)
    return code


def unhook(func_or_code):
    code = func_or_code if isinstance(func_or_code, types.CodeType) else _code_of(func_or_code)
    _MON.set_local_events(_TOOL, code, 0)
    _start_cb.pop(code, None)
    _return_cb.pop(code, None)
    _unwind_cb.pop(code, None)


def unhook_all():
    for code in list(_start_cb):
        unhook(code)


def event_counts():
    return dict(counts)
