"""Glue between the harness and the tree under test (graphiq): building graphiq objects from harness data and
reading graphiq objects back into oracle data.  Only the harness uses this; the oracles never import it."""
import numpy as np

from .ref import pauli


def mods():
    """lazily import the graphiq modules used all over the harness"""
    import graphiq.circuit.ops as ops
    from graphiq.circuit.circuit_dag import CircuitDAG
    from graphiq.state import QuantumState
    from graphiq.backends.stabilizer.clifford_tableau import CliffordTableau
    from graphiq.backends.stabilizer.tableau import StabilizerTableau
    from graphiq.backends.stabilizer.compiler import StabilizerCompiler
    from graphiq.backends.density_matrix.compiler import DensityMatrixCompiler
    return dict(ops=ops, CircuitDAG=CircuitDAG, QuantumState=QuantumState, CliffordTableau=CliffordTableau,
                StabilizerTableau=StabilizerTableau, StabilizerCompiler=StabilizerCompiler,
                DensityMatrixCompiler=DensityMatrixCompiler)


# ---------------------------------------------------------------------------------------------- tableaux
def ptab_to_stabilizer_tableau(t):
    """PTab (Hermitian rows, real signs) -> graphiq StabilizerTableau"""
    from graphiq.backends.stabilizer.tableau import StabilizerTableau
    x, z, r, ip = t.to_graphiq()
    assert not ip.any(), "stabilizer generators must have real signs"
    return StabilizerTableau([np.array(x, dtype=int), np.array(z, dtype=int)], np.array(r, dtype=int))


def stabilizer_tableau_to_ptab(tab):
    return pauli.PTab.from_graphiq(np.array(tab.x_matrix), np.array(tab.z_matrix), np.array(tab.phase))


def clifford_snapshot(tab):
    """(table, phase, iphase, n) deep-copied"""
    return (np.array(tab.table).copy(), np.array(tab.phase).copy(), np.array(tab.iphase).copy(), int(tab.n_qubits))


def clifford_stab_ptab(tab):
    t, p, ip, n = clifford_snapshot(tab)
    return pauli.stab_group_of_clifford(t, p, ip, n)


def destabilizers_for(t, rng=None):
    """given a full stabilizer PTab (n independent commuting generators) return (Xd, Zd) of destabilizers d_i with
    d_i anticommuting with s_i only and all d_i commuting with each other (symplectic Gram-Schmidt over GF(2))."""
    from .ref import gf2
    n = t.n
    S = np.hstack([t.X, t.Z]).astype(np.uint8)          # n x 2n
    # symplectic form: <u,v> = u_x.v_z + u_z.v_x ; we need D with  S J D^T = I ,  D J D^T = 0
    J = np.zeros((2 * n, 2 * n), dtype=np.uint8)
    J[:n, n:] = np.eye(n, dtype=np.uint8)
    J[n:, :n] = np.eye(n, dtype=np.uint8)
    SJ = gf2.matmul(S, J)
    D = np.zeros((n, 2 * n), dtype=np.uint8)
    for i in range(n):
        e = np.zeros(n, dtype=np.uint8)
        e[i] = 1
        d = gf2.solve(SJ, e)
        assert d is not None
        D[i] = d
    # fix mutual commutation: d_j <- d_j + sum_{i<j} <d_i,d_j> s_i   (adding stabilizers keeps S J D^T = I)
    for j in range(n):
        for i in range(j):
            if int(D[i] @ J @ D[j]) % 2:
                D[j] ^= S[i]
    if rng is not None:
        # randomise by adding random stabilizer elements in a symmetric way: d_i += sum_j M_ij s_j with M symmetric
        M = rng.integers(0, 2, (n, n)).astype(np.uint8)
        M = np.triu(M) | np.triu(M, 1).T
        D = D ^ gf2.matmul(M, S)
    return D[:, :n], D[:, n:]


def ptab_to_clifford(t, rng=None, random_destab_phase=False, return_arrays=False):
    """full CliffordTableau (with valid destabilizers) whose stabilizer half is exactly the PTab rows"""
    from graphiq.backends.stabilizer.clifford_tableau import CliffordTableau
    n = t.n
    x, z, r, ip = t.to_graphiq()
    assert not ip.any()
    dx, dz = destabilizers_for(t, rng)
    table = np.block([[dx.astype(int), dz.astype(int)], [x, z]]).astype(int)
    phase = np.zeros(2 * n, dtype=int)
    phase[n:] = r
    if random_destab_phase and rng is not None:
        phase[:n] = rng.integers(0, 2, n)
    if return_arrays:
        # the caller keeps the very arrays the tableau was built from (int64, as a user's stored starting point)
        return CliffordTableau(table, phase), table, phase
    return CliffordTableau(table, phase)


# ---------------------------------------------------------------------------------------------- graphs
def nx_from_adj(A, order=None):
    import networkx as nx
    A = np.asarray(A).astype(int)
    n = A.shape[0]
    g = nx.Graph()
    nodes = list(range(n)) if order is None else list(order)
    g.add_nodes_from(nodes)
    for i in range(n):
        for j in range(i + 1, n):
            if A[i, j]:
                g.add_edge(nodes[i], nodes[j])
    return g


def adj_from_nx(g, nodelist=None):
    import networkx as nx
    return nx.to_numpy_array(g, nodelist=nodelist).astype(int)
