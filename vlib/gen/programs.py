"""Random circuit programs with an independent specification.

A `Program` is the harness' own record of what was built: registers and, per register wire, the ordered list of
operation ids.  `build()` drives the public CircuitDAG API (add / insert_at) and keeps the specification in step; the
specification, not the DAG, is what the reference semantics is computed from."""
import numpy as np

ONEQ = ["I", "H", "P", "Pdag", "X", "Y", "Z"]
CLS = {"I": "Identity", "H": "Hadamard", "P": "Phase", "Pdag": "PhaseDagger", "X": "SigmaX", "Y": "SigmaY", "Z": "SigmaZ",
       "CNOT": "CNOT", "CZ": "CZ", "cCNOT": "ClassicalCNOT", "cCZ": "ClassicalCZ", "MZ": "MeasurementZ",
       "MR": "MeasurementCNOTandReset", "W": "OneQubitGateWrapper"}
GATE_OF = {"I": "i", "H": "h", "P": "s", "Pdag": "sdg", "X": "x", "Y": "y", "Z": "z"}


class SpecOp:
    __slots__ = ("id", "kind", "q", "c", "gates", "obj", "how", "noise")

    def __init__(self, id, kind, q, c=None, gates=None):
        self.id, self.kind, self.q, self.c, self.gates = id, kind, [tuple(x) for x in q], c, gates
        self.obj = None
        self.how = "add"
        self.noise = None

    def to_json(self):
        d = {"id": self.id, "kind": self.kind, "q": [list(x) for x in self.q], "how": self.how}
        if self.c is not None:
            d["c"] = self.c
        if self.gates:
            d["gates"] = self.gates
        return d

    def text(self):
        qs = ",".join(f"{t}{i}" for t, i in self.q)
        s = self.kind + ("[" + " ".join(self.gates) + "]" if self.gates else "") + " " + qs
        if self.c is not None:
            s += f" ->c{self.c}"
        return s


class Program:
    def __init__(self, n_e, n_p, n_c):
        self.n_e, self.n_p, self.n_c = n_e, n_p, n_c
        self.ops = []                     # SpecOp in creation order
        self.wires = {}                   # (type, idx) -> [op ids] in wire order   (quantum and classical 'c')
        for t, n in (("e", n_e), ("p", n_p), ("c", n_c)):
            for i in range(n):
                self.wires[(t, i)] = []
        self.steps = []                   # build steps for replay: ("add", opjson) | ("insert", opjson, positions)

    # ------------------------------------------------------------------ bookkeeping
    def qindex(self, t, i):
        return i if t == "p" else self.n_p + i

    @property
    def n_q(self):
        return self.n_e + self.n_p

    def new_op(self, kind, q, c=None, gates=None):
        op = SpecOp(len(self.ops), kind, q, c, gates)
        self.ops.append(op)
        return op

    def ensure_regs(self, op):
        for (t, i) in op.q:
            if (t, i) not in self.wires:
                assert i == (self.n_e if t == "e" else self.n_p)
                self.wires[(t, i)] = []
                if t == "e":
                    self.n_e += 1
                else:
                    self.n_p += 1
        if op.c is not None and ("c", op.c) not in self.wires:
            assert op.c == self.n_c
            self.wires[("c", op.c)] = []
            self.n_c += 1

    def spec_add(self, op):
        self.ensure_regs(op)
        for w in op.q:
            self.wires[w].append(op.id)
        if op.c is not None:
            self.wires[("c", op.c)].append(op.id)
        op.how = "add"
        self.steps.append(["add", op.to_json()])

    def spec_insert(self, op, positions):
        """positions[k] = index in wire op.q[k] before which the op is inserted (classical wires are NOT touched by
        CircuitDAG.insert_at, so neither here)"""
        self.ensure_regs(op)
        for w, pos in zip(op.q, positions):
            self.wires[w].insert(pos, op.id)
        op.how = "insert"
        self.steps.append(["insert", op.to_json(), list(positions)])

    def remove(self, op_id):
        for w in self.wires.values():
            while op_id in w:
                w.remove(op_id)

    def text(self):
        return [o.text() for o in self.ops]

    # ------------------------------------------------------------------ specification-level rewrites
    def exec_gates(self, op):
        """one-qubit gate names in execution order for a one-qubit gate / wrapper"""
        return list(reversed(op.gates)) if op.kind == "W" else [op.kind]

    def spec_replace(self, op_id, kind, gates=None):
        o = self.ops[op_id]
        o.kind, o.gates, o.obj = kind, gates, None

    def spec_unwrap(self):
        for o in list(self.ops):
            if o.kind != "W":
                continue
            w = o.q[0]
            if o.id not in self.wires[w]:
                continue
            pos = self.wires[w].index(o.id)
            new = [self.new_op(g, [w]) for g in reversed(o.gates)]
            self.wires[w][pos:pos + 1] = [n.id for n in new]

    def spec_remove_identity(self):
        for o in self.ops:
            if o.kind == "I":
                self.remove(o.id)

    def spec_group(self):
        for w in [w for w in self.wires if w[0] in "ep"]:
            ids = self.wires[w]
            out, run = [], []

            def flush():
                if run:
                    ex = []
                    for i in run:
                        ex += self.exec_gates(self.ops[i])
                    out.append(self.new_op("W", [w], gates=list(reversed(ex))).id)
                    run.clear()
            for i in ids:
                if self.ops[i].kind in ONEQ or self.ops[i].kind == "W":
                    run.append(i)
                else:
                    flush()
                    out.append(i)
            flush()
            self.wires[w] = out

    def signature(self, op):
        return (CLS[op.kind], tuple(op.q), op.c, tuple(CLS[g] for g in op.gates) if op.kind == "W" else None)

    def add_register(self, t):
        n = {"e": self.n_e, "p": self.n_p, "c": self.n_c}[t]
        self.wires[(t, n)] = []
        if t == "e":
            self.n_e += 1
        elif t == "p":
            self.n_p += 1
        else:
            self.n_c += 1

    def to_json(self):
        return {"n_e": self.n_e, "n_p": self.n_p, "n_c": self.n_c, "steps": self.steps}

    def live_ops(self):
        ids = set()
        for w in self.wires.values():
            ids.update(w)
        return [o for o in self.ops if o.id in ids]

    def linear_extension(self, rng=None, use_classical=True):
        """one linear extension of the wire orders (Kahn); returns list of SpecOp"""
        succ, indeg = {}, {}
        live = {o.id for o in self.live_ops()}
        for i in live:
            succ[i] = set()
            indeg[i] = 0
        for (t, _), w in self.wires.items():
            if t == "c" and not use_classical:
                continue
            for a, b in zip(w, w[1:]):
                if b not in succ[a]:
                    succ[a].add(b)
                    indeg[b] += 1
        ready = sorted(i for i in live if indeg[i] == 0)
        out = []
        while ready:
            k = int(rng.integers(len(ready))) if rng is not None else 0
            i = ready.pop(k)
            out.append(self.ops[i])
            for j in sorted(succ[i]):
                indeg[j] -= 1
                if indeg[j] == 0:
                    ready.append(j)
            ready.sort()
        assert len(out) == len(live), "specification has a cycle"
        return out


# ---------------------------------------------------------------------------------------------- graphiq construction
def make_gq_op(op, noise=None):
    import graphiq.circuit.ops as ops
    kw = {} if noise is None else {"noise": noise}
    k = op.kind
    if k in ONEQ:
        (t, i), = op.q
        return getattr(ops, CLS[k])(register=i, reg_type=t, **kw)
    if k == "W":
        (t, i), = op.q
        return ops.OneQubitGateWrapper([getattr(ops, CLS[g]) for g in op.gates], register=i, reg_type=t, **kw)
    if k in ("CNOT", "CZ"):
        (ct, ci), (tt, ti) = op.q
        return getattr(ops, CLS[k])(control=ci, control_type=ct, target=ti, target_type=tt, **kw)
    if k in ("cCNOT", "cCZ", "MR"):
        (ct, ci), (tt, ti) = op.q
        return getattr(ops, CLS[k])(control=ci, control_type=ct, target=ti, target_type=tt, c_register=op.c, **kw)
    if k == "MZ":
        (t, i), = op.q
        return ops.MeasurementZ(register=i, reg_type=t, c_register=op.c, **kw)
    raise ValueError(k)


def noise_annotation(op, rng):
    """noise objects of non-zero strength attached to an operation (they mean nothing while noise simulation is off, which is
    the compilers' default); the specification remembers the shape: one object for a whole wrapper makes unwrap() emit a
    carrier Identity"""
    import graphiq.noise.noise_models as nm

    def one():
        o = [nm.DepolarizingNoise(0.3), nm.PauliError("X"), nm.PauliError("Y"), nm.PhotonLoss(0.2)][int(rng.integers(4))]
        after = bool(rng.integers(2))
        o.noise_parameters["After gate"] = after
        return o, after
    if op.kind == "W" and rng.random() < 0.6:
        o, after = one()
        op.noise = ("single", ("annotation", type(o).__name__, after))
        return o
    if op.kind == "W":
        op.noise = [("annotation", None, True)] * len(op.gates)
        return [one()[0] for _ in op.gates]
    if op.kind in ("CNOT", "CZ"):
        op.noise = [("annotation", None, True)] * 2
        return [one()[0], one()[0]] if rng.random() < 0.6 else one()[0]
    op.noise = ("annotation", None, True)
    return one()[0]


def wire_edges(circ, t, i):
    """edges of register wire (t,i) in order from input to output, found through the public dag"""
    key = f"{t}{i}"
    node = f"{key}_in"
    out = []
    guard = 0
    while node != f"{key}_out":
        nxt = [e for e in circ.dag.out_edges(node, keys=True) if e[2] == key]
        if len(nxt) != 1:
            raise RuntimeError(f"wire {key}: node {node} has {len(nxt)} outgoing edges with that key")
        out.append(nxt[0])
        node = nxt[0][1]
        guard += 1
        if guard > 100000:
            raise RuntimeError("wire does not terminate")
    return out


def random_op(prog, rng, alphabet, allow_new_reg=False):
    """draw a SpecOp (not yet placed) over the current registers; None if impossible"""
    qregs = [w for w in prog.wires if w[0] in "ep"]
    if not qregs:
        return None
    kind = alphabet[int(rng.integers(len(alphabet)))]
    if allow_new_reg and rng.random() < 0.5:
        # the next register of one type may be named by an operation that is appended (continuous numbering)
        t = "ep"[int(rng.integers(2))]
        qregs = qregs + [(t, prog.n_e if t == "e" else prog.n_p)]
    pick = lambda: qregs[int(rng.integers(len(qregs)))]
    if kind in ONEQ:
        return prog.new_op(kind, [pick()])
    if kind == "W":
        L = int(rng.integers(1, 5))
        pool = ["I", "H", "P", "Pdag", "X", "Y", "Z"]
        return prog.new_op("W", [pick()], gates=[pool[int(rng.integers(len(pool)))] for _ in range(L)])
    if kind == "MZ":
        if prog.n_c == 0:
            return None
        return prog.new_op("MZ", [pick()], c=int(rng.integers(prog.n_c)))
    if len(qregs) < 2:
        return None
    a = pick()
    b = pick()
    while b == a:
        b = pick()
    if kind in ("CNOT", "CZ"):
        return prog.new_op(kind, [a, b])
    if prog.n_c == 0:
        return None
    return prog.new_op(kind, [a, b], c=int(rng.integers(prog.n_c)))


FULL_ALPHABET = ONEQ + ["W", "W", "CNOT", "CNOT", "CZ", "cCNOT", "cCZ", "MZ", "MR", "MR"]
UNITARY_ALPHABET = ONEQ + ["W", "W", "CNOT", "CNOT", "CZ"]


def place(prog, circ, op, rng, p_insert=0.35):
    """put `op` into the circuit through add() or insert_at(), mirroring it in the specification.
    returns True if placed"""
    if op.obj is None:
        noise = None
        pa = getattr(prog, "annotate_noise", 0.0)
        if pa and op.kind in ONEQ + ["W", "CNOT", "CZ"] and rng.random() < pa:
            noise = noise_annotation(op, rng)
        op.obj = make_gq_op(op, noise=noise)
    if rng.random() >= p_insert:
        circ.add(op.obj)
        prog.spec_add(op)
        return True
    # insertion at random compatible edges
    edges, positions = [], []
    first = None
    for k, (t, i) in enumerate(op.q):
        we = wire_edges(circ, t, i)
        if k == 0:
            pos = int(rng.integers(len(we)))
            first = we[pos]
            edges.append(first)
            positions.append(pos)
        else:
            bad = circ.find_incompatible_edges(first)
            ok = [j for j, e in enumerate(we) if e not in bad]
            if not ok:
                circ.add(op.obj)
                prog.spec_add(op)
                return True
            pos = ok[int(rng.integers(len(ok)))]
            edges.append(we[pos])
            positions.append(pos)
    circ.insert_at(op.obj, edges)
    prog.spec_insert(op, positions)
    return True


def random_program(rng, n_e, n_p, n_c, length, alphabet=None, p_insert=0.35, adversarial=True, grow_registers=False, annotate_noise=0.0):
    """build (Program, CircuitDAG) through the public API"""
    from graphiq.circuit.circuit_dag import CircuitDAG
    alphabet = alphabet or FULL_ALPHABET
    prog = Program(n_e, n_p, n_c)
    prog.annotate_noise = annotate_noise
    circ = CircuitDAG(n_emitter=n_e, n_photon=n_p, n_classical=n_c)
    for step in range(length):
        grow = grow_registers and prog.n_q < 6 and rng.random() < 0.06
        op = random_op(prog, rng, alphabet, allow_new_reg=grow)
        if op is None:
            continue
        new_reg = any((w not in prog.wires) for w in op.q)
        place(prog, circ, op, rng, 0.0 if new_reg else p_insert)
        # adversarial shape: something right after a measure-and-reset on the same emitter / measured qubit
        if adversarial and op.kind in ("MR", "MZ", "cCNOT", "cCZ") and rng.random() < 0.6:
            w = op.q[0]
            k2 = ["H", "X", "P", "W", "CNOT"][int(rng.integers(5))]
            others = [x for x in prog.wires if x[0] in "ep" and x != w]
            if k2 == "CNOT" and others:
                o2 = prog.new_op("CNOT", [w, others[int(rng.integers(len(others)))]])
            elif k2 == "W":
                o2 = prog.new_op("W", [w], gates=["H", "P"][: int(rng.integers(1, 3))])
            else:
                o2 = prog.new_op(k2 if k2 != "CNOT" else "H", [w])
            o2.obj = make_gq_op(o2)
            circ.add(o2.obj)
            prog.spec_add(o2)
    return prog, circ


def random_edits(prog, circ, rng, k, final_rewrite=True):
    """edit an existing (Program, CircuitDAG) pair through replace_op / remove_op (and at most one closing rewrite), keeping the
    specification in step; returns the list of edits applied (text)"""
    applied = []
    for _ in range(k):
        live = [o for o in prog.live_ops() if o.obj is not None]
        if not live:
            break
        if rng.random() < 0.7:
            cand = [o for o in live if o.kind in ONEQ or o.kind == "W"]
            if not cand:
                continue
            o = cand[int(rng.integers(len(cand)))]
            node = [n for n, d in circ.dag.nodes(data=True) if d["op"] is o.obj]
            if not node:
                continue
            before = o.text()
            if rng.random() < 0.5:
                nk, gates = ONEQ[int(rng.integers(len(ONEQ)))], None
            else:
                nk, gates = "W", [ONEQ[int(rng.integers(len(ONEQ)))] for _ in range(int(rng.integers(1, 5)))]
            prog.spec_replace(o.id, nk, gates)
            o.obj = make_gq_op(o)
            circ.replace_op(node[0], o.obj)
            applied.append(f"replace {before} by {o.text()}")
        else:
            o = live[int(rng.integers(len(live)))]
            node = [n for n, d in circ.dag.nodes(data=True) if d["op"] is o.obj]
            if not node:
                continue
            circ.remove_op(node[0])
            prog.remove(o.id)
            applied.append("remove " + o.text())
    if final_rewrite:
        r = [None, None, "group", "unwrap", "remove_identity"][int(rng.integers(5))]
        if r == "group":
            circ.group_one_qubit_gates()
            prog.spec_group()
        elif r == "unwrap":
            circ.unwrap_nodes()
            prog.spec_unwrap()
        elif r == "remove_identity":
            circ.remove_identity()
            prog.spec_remove_identity()
        if r:
            applied.append(r)
            bind_objects(prog, circ)
    return applied


def bind_objects(prog, circ):
    """after a rewrite that creates new operations inside graphiq: bind every specification operation to the object sitting at
    the same position of the same register wire (the structure itself is judged elsewhere; a length mismatch is reported)"""
    for w, ids in prog.wires.items():
        if w[0] == "c":
            continue
        nodes = [e[1] for e in wire_edges(circ, w[0], w[1])[:-1]]
        if len(nodes) != len(ids):
            raise RuntimeError(f"wire {w}: the circuit has {len(nodes)} operations, the specification {len(ids)}")
        for i, n in zip(ids, nodes):
            prog.ops[i].obj = circ.dag.nodes[n]["op"]


def rebuild(pjson):
    """re-create (Program, CircuitDAG) from Program.to_json() (replay)"""
    from graphiq.circuit.circuit_dag import CircuitDAG
    n_e = pjson["n_e"]
    n_p = pjson["n_p"]
    n_c = pjson["n_c"]
    # registers may have grown during the build: start from the counts before growth
    grown = {"e": 0, "p": 0, "c": 0}
    prog = Program(n_e, n_p, n_c)
    circ = CircuitDAG(n_emitter=n_e, n_photon=n_p, n_classical=n_c)
    for st in pjson["steps"]:
        oj = st[1]
        op = prog.new_op(oj["kind"], [tuple(x) for x in oj["q"]], oj.get("c"), oj.get("gates"))
        op.obj = make_gq_op(op)
        if st[0] == "add":
            circ.add(op.obj)
            prog.spec_add(op)
        else:
            edges = [wire_edges(circ, t, i)[pos] for (t, i), pos in zip(op.q, st[2])]
            circ.insert_at(op.obj, edges)
            prog.spec_insert(op, st[2])
    return prog, circ


KIND_OF = {v: k for k, v in CLS.items()}


def program_from_circuit(circ):
    """specification read off an existing circuit (e.g. a solver output): per-register operation order from the wires of
    the DAG, operation objects by identity.  The DAG's own consistency is what vlib.mon.dag checks separately."""
    regs = circ.register
    prog = Program(len(regs["e"]), len(regs["p"]), len(regs["c"]))
    by_node = {}
    import networkx as nx
    for node in nx.topological_sort(circ.dag):
        op = circ.dag.nodes[node]["op"]
        name = type(op).__name__
        if name in ("Input", "Output"):
            continue
        kind = KIND_OF[name]
        q = list(zip(op.q_registers_type, op.q_registers))
        c = op.c_registers[0] if len(op.c_registers) else None
        gates = [KIND_OF[g.__name__] for g in op.operations] if kind == "W" else None
        sp = prog.new_op(kind, q, c, gates)
        sp.obj = op
        if kind == "W" and not isinstance(getattr(op, "noise", []), list):
            # one noise object for the whole wrapper: unwrap() emits a carrier Identity for it, noise simulation on or off
            try:
                after = bool(op.noise.noise_parameters["After gate"])
            except Exception:
                after = True
            sp.noise = ("single", ("annotation", type(op.noise).__name__, after))
        by_node[node] = sp
    for t in ("e", "p", "c"):
        for i in range(len(regs[t])):
            ids = []
            for e in wire_edges(circ, t, i)[:-1]:
                ids.append(by_node[e[1]].id)
            prog.wires[(t, i)] = ids
    return prog
