"""worker process: runs one shard of one property's workload against the tree under test"""
import importlib
import json
import sys
import traceback

from . import boot


def main():
    prop, tier, seed, shard, spec_path, out_path = sys.argv[1:7]
    boot.import_graphiq()
    from .runner import Ctx, jsonable
    mod = importlib.import_module(f"vlib.props.{prop.lower()}")
    with open(spec_path) as f:
        spec = json.load(f)
    ctx = Ctx(prop, tier, int(seed), int(shard))
    try:
        mod.run_shard(spec, ctx)
    except Exception:
        traceback.print_exc()
        sys.exit(3)
    try:
        from . import probes
        for k, v in probes.event_counts().items():
            ctx.count("probe:" + k, v)
    except Exception:
        pass
    with open(out_path, "w") as f:
        json.dump(jsonable(ctx.dump()), f)


if __name__ == "__main__":
    main()
