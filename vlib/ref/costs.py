"""Circuit cost quantities computed from the plain operation lists of a harness Program (no graphiq code)."""
import copy


def chain_lengths(prog):
    """longest chain (number of operations) ending at each live operation; operations are linked when they are
    consecutive on a register wire (quantum wires; classical wires as far as the specification threads them)"""
    order = prog.linear_extension()
    pred = {o.id: set() for o in order}
    for w, ids in prog.wires.items():
        for a, b in zip(ids, ids[1:]):
            pred[b].add(a)
    L = {}
    for o in order:
        L[o.id] = 1 + max([L[p] for p in pred[o.id]], default=0)
    return L


def depth(prog):
    L = chain_lengths(prog)
    return max(L.values(), default=0)


def register_depth(prog):
    L = chain_lengths(prog)
    out = {"e": [0] * prog.n_e, "p": [0] * prog.n_p, "c": [0] * prog.n_c}
    for (t, i), ids in prog.wires.items():
        out[t][i] = L[ids[-1]] if ids else 0
    return out


def unwrapped(prog):
    p = copy.deepcopy(prog)
    for o in p.ops:
        o.obj = None
    p.spec_unwrap()
    p.spec_remove_identity()
    return p


def emitter_cnot_count(prog):
    return sum(1 for o in prog.live_ops() if o.kind == "CNOT" and o.q[0][0] == "e" and o.q[1][0] == "e")


def unitary_count(prog):
    p = unwrapped(prog)
    return sum(1 for o in p.live_ops() if o.kind in ("H", "P", "Pdag", "X", "Y", "Z", "CNOT"))


def measure_count(prog):
    return sum(1 for o in prog.live_ops() if o.kind == "MR")


def max_emitter_depth(prog):
    p = unwrapped(prog)
    return max(len(p.wires[("e", i)]) for i in range(p.n_e))


def max_emitter_reset_depth(prog):
    p = unwrapped(prog)
    best = 0
    for i in range(p.n_e):
        ids = p.wires[("e", i)]
        marks = [0] + [k + 1 for k, oid in enumerate(ids) if p.ops[oid].kind == "MR"] + [len(ids) + 1]
        best = max(best, max(b - a for a, b in zip(marks, marks[1:])))
    return best


def max_emitter_eff_depth(prog):
    p = unwrapped(prog)
    L = chain_lengths(p)
    best = None
    for i in range(p.n_e):
        ids = p.wires[("e", i)]
        # depth of a node = longest chain ending there minus one; input = -1; output = longest chain ending at its predecessor
        marks = [-1] + [L[oid] - 1 for oid in ids if p.ops[oid].kind == "MR"] + [(L[ids[-1]] if ids else 0)]
        d = max(b - a for a, b in zip(marks, marks[1:]))
        best = d if best is None else max(best, d)
    return best
