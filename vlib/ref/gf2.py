"""GF(2) linear algebra on numpy uint8 matrices. Written from the definitions; imports nothing from graphiq."""
import numpy as np


def _m(a):
    return (np.array(a, dtype=np.int64) & 1).astype(np.uint8)


def rref(a):
    """reduced row echelon form; returns (R, pivot_columns)"""
    a = _m(a).copy()
    if a.ndim != 2:
        raise ValueError("matrix expected")
    rows, cols = a.shape
    piv = []
    r = 0
    for c in range(cols):
        if r >= rows:
            break
        nz = np.nonzero(a[r:, c])[0]
        if nz.size == 0:
            continue
        p = r + int(nz[0])
        if p != r:
            a[[r, p]] = a[[p, r]]
        mask = a[:, c].copy()
        mask[r] = 0
        idx = np.nonzero(mask)[0]
        if idx.size:
            a[idx] ^= a[r]
        piv.append(c)
        r += 1
    return a, piv


def rank(a):
    a = _m(a)
    if a.size == 0:
        return 0
    return len(rref(a)[1])


def nullspace(a):
    """basis (rows) of {v : a v = 0}"""
    a = _m(a)
    rows, cols = a.shape
    r, piv = rref(a)
    free = [c for c in range(cols) if c not in piv]
    basis = []
    for f in free:
        v = np.zeros(cols, dtype=np.uint8)
        v[f] = 1
        for i, p in enumerate(piv):
            if r[i, f]:
                v[p] = 1
        basis.append(v)
    return np.array(basis, dtype=np.uint8).reshape(len(basis), cols)


def solve(a, b):
    """one solution x of a x = b (b vector) or None"""
    a = _m(a)
    b = _m(b).reshape(-1, 1)
    aug = np.hstack([a, b])
    r, piv = rref(aug)
    ncol = a.shape[1]
    if ncol in piv:
        return None
    x = np.zeros(ncol, dtype=np.uint8)
    for i, p in enumerate(piv):
        x[p] = r[i, ncol]
    return x


def in_rowspace(a, v):
    a = _m(a)
    v = _m(v).reshape(1, -1)
    return rank(np.vstack([a, v])) == rank(a)


def inverse(a):
    a = _m(a)
    n = a.shape[0]
    aug = np.hstack([a, np.eye(n, dtype=np.uint8)])
    r, piv = rref(aug)
    if piv[:n] != list(range(n)):
        return None
    return r[:, n:]


def matmul(a, b):
    return ((np.array(a, dtype=np.int64) @ np.array(b, dtype=np.int64)) & 1).astype(np.uint8)
