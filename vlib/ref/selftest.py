"""Cross-checks of the oracles against each other (dense vs Pauli algebra vs GF(2)).  Run by setup_cmd and by the
runner (a failure makes every check inconclusive)."""
import sys
import numpy as np

from . import gf2, pauli, dense, graphs


def run(seed=0, rounds=60, verbose=False):
    rng = np.random.default_rng(seed)
    n_checks = 0
    # 1. Pauli conjugation rules vs dense matrices
    for _ in range(rounds):
        n = int(rng.integers(1, 4))
        x = rng.integers(0, 2, n)
        z = rng.integers(0, 2, n)
        k = int(rng.integers(4))
        t = pauli.PTab([x], [z], [k])
        M = dense.pauli_matrix(x, z, k)
        for g in pauli.random_clifford_word(rng, n, 5):
            t.apply(*g)
            U = np.eye(2 ** n, dtype=complex)
            U = dense.left(U, {"cnot": dense.CNOT2, "cz": dense.CZ2}.get(g[0], dense.ONE_QUBIT.get(g[0])), list(g[1:]), n)
            M = U @ M @ U.conj().T
            assert np.allclose(M, dense.pauli_matrix(t.X[0], t.Z[0], t.K[0])), ("conjugation", g)
            n_checks += 1
    # 2. products
    for _ in range(rounds):
        n = int(rng.integers(1, 4))
        t = pauli.PTab(rng.integers(0, 2, (2, n)), rng.integers(0, 2, (2, n)), rng.integers(0, 4, 2))
        A = dense.pauli_matrix(t.X[0], t.Z[0], t.K[0])
        B = dense.pauli_matrix(t.X[1], t.Z[1], t.K[1])
        t.mul_into(0, 1)
        assert np.allclose(A @ B, dense.pauli_matrix(t.X[1], t.Z[1], t.K[1])), "product"
        n_checks += 1
    # 3. stabilizer groups: state vector from group vs gate-by-gate simulation; measurement post-condition; entropy
    for _ in range(rounds):
        n = int(rng.integers(1, 5))
        word = pauli.random_clifford_word(rng, n, 4 * n + 2)
        t = pauli.PTab.zero_state(n)
        rho = dense.zero_rho(n)
        for g in word:
            t.apply(*g)
            rho = dense.gate(rho, g[0], list(g[1:]), n)
        assert t.is_abelian() and t.hermitian() and t.rank() == n
        assert np.allclose(dense.projector_of_group(t), rho), "group projector vs simulated state"
        t2 = pauli.scramble_generators(rng, t)
        assert t2.same_group(t) and np.allclose(dense.projector_of_group(t2), rho)
        # flip one sign -> different group
        t3 = t.copy()
        t3.K[0] = (t3.K[0] + 2) % 4
        assert not t3.same_group(t)
        q = int(rng.integers(n))
        kind, out = t.measure_z_info(q)
        p0, p1 = dense.prob_z(rho, q, n)
        if kind == "det":
            assert abs((p1 if out else p0) - 1) < 1e-9, "deterministic outcome"
            outs = [out]
        else:
            assert abs(p0 - 0.5) < 1e-9
            outs = [0, 1]
        for m in outs:
            tm = t.after_measure_z(q, m)
            assert np.allclose(dense.projector_of_group(tm), dense.project_z(rho, q, m, n)), "measurement"
        # entropy across cuts
        for kcut in range(n):
            A = list(range(kcut + 1))
            red = dense.partial_trace(rho, A, n)
            assert abs(dense.entropy_bits(red) - t.entropy_cut(A)) < 1e-6, "entropy"
        # restriction for product states: add an unentangled qubit and restrict
        ti = t.insert_qubit_zero(int(rng.integers(n + 1)))
        assert ti.rank() == n + 1 and ti.is_abelian()
        n_checks += 4
    # 4. partial trace against the kron definition
    for _ in range(rounds // 3):
        a = dense.random_mixed(rng, 1)
        b = dense.random_mixed(rng, 2)
        rho = np.kron(a, b)
        assert np.allclose(dense.partial_trace(rho, [0], 3), a)
        assert np.allclose(dense.partial_trace(rho, [1, 2], 3), b)
        c = dense.random_mixed(rng, 1)
        rho = np.kron(np.kron(a, c), dense.random_mixed(rng, 1))
        assert np.allclose(dense.partial_trace(rho, [1, 0], 3), np.kron(c, a))
        n_checks += 3
    # 5. graph states: dense vector is stabilised by X_i prod Z_j ; LC keeps the orbit; cut-rank = entropy
    for _ in range(rounds // 2):
        n = int(rng.integers(1, 6))
        A = graphs.random_graph(rng, n, 0.5)
        v = dense.graph_state_vec(A)
        X, Zm, K = graphs.graph_stabilizers(A)
        t = pauli.PTab(X, Zm, K)
        assert np.allclose(dense.projector_of_group(t), dense.ket2dm(v)), "graph state"
        rho = dense.zero_rho(n)
        for i in range(n):
            rho = dense.gate(rho, "h", [i], n)
        for i, j in graphs.pairs(n):
            if A[i, j]:
                rho = dense.gate(rho, "cz", [i, j], n)
        assert np.allclose(rho, dense.ket2dm(v))
        assert graphs.cut_rank_profile(A) == [t.entropy_cut(range(k + 1)) for k in range(n)]
        if n >= 2:
            vtx = int(rng.integers(n))
            B = graphs.local_complement(A, vtx)
            assert np.array_equal(graphs.local_complement(B, vtx), A)
            assert graphs.adj_to_code(B) in graphs.orbit(A)
        n_checks += 4
    # 6. uhlmann fidelity sanity
    for _ in range(rounds // 3):
        r = dense.random_mixed(rng, 2)
        s = dense.random_mixed(rng, 2)
        f1, f2 = dense.uhlmann_fidelity(r, s), dense.uhlmann_fidelity(s, r)
        assert abs(f1 - f2) < 1e-8 and -1e-9 <= f1 <= 1 + 1e-9
        assert abs(dense.uhlmann_fidelity(r, r) - 1) < 1e-7
        p = dense.random_pure(rng, 2)
        assert abs(dense.uhlmann_fidelity(p, s) - np.real(np.trace(p @ s))) < 1e-7
        td = dense.trace_distance(r, s)
        assert 1 - np.sqrt(f1) <= td + 1e-8 and td <= np.sqrt(1 - f1) + 1e-8
        n_checks += 4
    # 7. gf2
    for _ in range(rounds):
        a = rng.integers(0, 2, (int(rng.integers(1, 7)), int(rng.integers(1, 7))))
        ns = gf2.nullspace(a)
        assert not gf2.matmul(a, ns.T).any()
        assert gf2.rank(a) + ns.shape[0] == a.shape[1]
        n_checks += 1
    # number of 4-vertex LC orbits of labelled graphs is well defined; orbits partition the 64 graphs
    part = graphs.orbit_partition(4)
    assert len(part) == 64
    if verbose:
        print(f"oracle self-test ok: {n_checks} cross-checks")
    return n_checks


if __name__ == "__main__":
    try:
        run(verbose=True)
    except AssertionError as e:
        print("ORACLE SELF-TEST FAILED:", e)
        sys.exit(2)
