"""'A standard openQASM 2.0 reader': qiskit.qasm2.loads parses the text; the parsed instruction list (custom gate
definitions expanded down to U / CX, measure, reset, if, barrier) is interpreted by the dense reference.
Registers are the size-1 registers p<i> / e<i> / c<i> that graphiq exports; photons are indexed before emitters."""
import re
import numpy as np

from . import dense


def u_matrix(theta, phi, lam):
    return np.array([[np.cos(theta / 2), -np.exp(1j * lam) * np.sin(theta / 2)],
                     [np.exp(1j * phi) * np.sin(theta / 2), np.exp(1j * (phi + lam)) * np.cos(theta / 2)]], dtype=complex)


class QasmProgram:
    def __init__(self, text):
        import qiskit.qasm2
        self.qc = qiskit.qasm2.loads(text)
        names = [r.name for r in self.qc.qregs]
        self.n_p = sum(1 for n in names if re.fullmatch(r"p\d+", n))
        self.n_e = sum(1 for n in names if re.fullmatch(r"e\d+", n))
        self.n_c = len(self.qc.cregs)
        for r in list(self.qc.qregs) + list(self.qc.cregs):
            if r.size != 1:
                raise ValueError("register of size != 1")
        self.n = self.n_p + self.n_e
        self.prims = self._flatten(self.qc, None)

    def _qidx(self, qc, bit, mapping):
        if mapping is not None:
            return mapping[qc.find_bit(bit).index]
        reg = qc.find_bit(bit).registers[0][0].name
        i = int(reg[1:])
        return i if reg[0] == "p" else self.n_p + i

    def _cidx(self, qc, bit):
        reg = qc.find_bit(bit).registers[0][0].name
        return int(reg[1:])

    def _flatten(self, qc, mapping):
        out = []
        for inst in qc.data:
            op = inst.operation
            name = op.name
            qs = [self._qidx(qc, b, mapping) for b in inst.qubits]
            if name == "barrier":
                continue
            if name == "measure":
                out.append(("measure", qs[0], self._cidx(qc, inst.clbits[0])))
            elif name == "reset":
                out.append(("reset", qs[0]))
            elif name == "if_else":
                creg, val = op.condition
                body = op.params[0]
                # body circuit's qubits are mapped positionally onto inst.qubits
                sub = self._flatten(body, {i: q for i, q in enumerate(qs)})
                out.append(("if", int(creg.name[1:]), int(val), sub))
            elif name in ("u", "u3", "U"):
                th, ph, la = [float(p) for p in op.params]
                out.append(("u", u_matrix(th, ph, la), qs[0]))
            elif name in ("cx", "CX"):
                out.append(("cx", qs[0], qs[1]))
            elif getattr(op, "definition", None) is not None:
                out.extend(self._flatten(op.definition, {i: q for i, q in enumerate(qs)}))
            else:
                raise ValueError(f"cannot interpret instruction {name}")
        return out

    def n_measurements(self):
        return sum(1 for p in self.prims if p[0] == "measure")

    def run(self, outcomes):
        """dense state after the program for the given list of measurement outcomes (in text order)"""
        n = self.n
        rho = dense.zero_rho(n)
        creg = [0] * self.n_c
        it = iter(outcomes)

        def step(prims):
            nonlocal rho
            for p in prims:
                if p[0] == "u":
                    rho = dense.conj_apply(rho, p[1], [p[2]], n)
                elif p[0] == "cx":
                    rho = dense.gate(rho, "cnot", [p[1], p[2]], n)
                elif p[0] == "measure":
                    m = next(it)
                    pr = dense.prob_z(rho, p[1], n)
                    if pr[m] < 1e-9:
                        raise ZeroDivisionError("outcome of probability 0")
                    rho = dense.project_z(rho, p[1], m, n)
                    creg[p[2]] = m
                elif p[0] == "reset":
                    rho = dense.reset(rho, p[1], n)
                elif p[0] == "if":
                    if creg[p[1]] == p[2]:
                        step(p[3])
        step(self.prims)
        return rho, creg
