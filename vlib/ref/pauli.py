"""Independent Pauli / stabilizer-group algebra.

A Pauli operator on n qubits is (x, z, k):  i^k * prod_j X_j^{x_j} Z_j^{z_j}   (per qubit: X first, then Z).
A list of m such operators is stored row-wise in a `PTab` (X, Z: m x n uint8; K: m ints mod 4).
Nothing here imports graphiq.  graphiq rows are (x, z, r[, iphase]) with Hermitian Y = iXZ:
    operator = (-1)^r * i^iphase * prod_j P_j ,  P_j in {I, X, Y, Z}    =>   k = 2 r + iphase + #Y  (mod 4)
"""
import numpy as np

from . import gf2


class PTab:
    def __init__(self, X, Z, K):
        X = np.array(X, dtype=np.int64)
        Z = np.array(Z, dtype=np.int64)
        K = np.array(K, dtype=np.int64).reshape(-1)
        if X.ndim != 2:
            X = X.reshape(len(K), -1)
        if Z.ndim != 2:
            Z = Z.reshape(len(K), -1)
        self.X = (X & 1).astype(np.uint8)
        self.Z = (Z & 1).astype(np.uint8)
        self.K = K % 4
        assert self.X.shape == self.Z.shape and self.X.shape[0] == self.K.shape[0], (self.X.shape, self.Z.shape, self.K.shape)

    # ---------------------------------------------------------------- constructors
    @classmethod
    def from_graphiq(cls, x, z, r, iphase=None):
        x = (np.array(x, dtype=np.int64) & 1)
        z = (np.array(z, dtype=np.int64) & 1)
        r = np.array(r, dtype=np.int64).reshape(-1)
        ip = np.zeros_like(r) if iphase is None else np.array(iphase, dtype=np.int64).reshape(-1)
        k = (2 * r + ip + (x & z).sum(axis=1)) % 4
        return cls(x, z, k)

    @classmethod
    def zero_state(cls, n):
        return cls(np.zeros((n, n)), np.eye(n), np.zeros(n))

    @classmethod
    def from_labels(cls, labels):
        """labels like '+XYZ', '-IZ' (Hermitian Paulis with sign)"""
        X, Z, K = [], [], []
        for lab in labels:
            sign = 0
            s = lab
            if s[0] in "+-":
                sign = 2 if s[0] == "-" else 0
                s = s[1:]
            x = [1 if c in "XY" else 0 for c in s]
            z = [1 if c in "ZY" else 0 for c in s]
            K.append((sign + sum(1 for c in s if c == "Y")) % 4)
            X.append(x)
            Z.append(z)
        return cls(X, Z, K)

    def copy(self):
        return PTab(self.X.copy(), self.Z.copy(), self.K.copy())

    @property
    def n(self):
        return self.X.shape[1]

    @property
    def m(self):
        return self.X.shape[0]

    def to_graphiq(self):
        """(x, z, r, iphase) with Hermitian-Y convention; inverse of from_graphiq"""
        ny = (self.X & self.Z).sum(axis=1)
        t = (self.K - ny) % 4
        return self.X.astype(int), self.Z.astype(int), (t // 2).astype(int), (t % 2).astype(int)

    def labels(self):
        out = []
        x, z, r, ip = self.to_graphiq()
        for i in range(self.m):
            s = "".join("IXZY"[int(x[i, j]) + 2 * int(z[i, j])] for j in range(self.n))
            pre = {(0, 0): "+", (1, 0): "-", (0, 1): "+i", (1, 1): "-i"}[(int(r[i]), int(ip[i]))]
            out.append(pre + s)
        return out

    # ---------------------------------------------------------------- algebra
    def mul_into(self, src, dst):
        """row[dst] <- row[src] * row[dst]"""
        self.K[dst] = (self.K[src] + self.K[dst] + 2 * int((self.Z[src] & self.X[dst]).sum())) % 4
        self.X[dst] ^= self.X[src]
        self.Z[dst] ^= self.Z[src]

    def commutes(self, i, x, z):
        return (int((self.X[i] & z).sum()) + int((self.Z[i] & x).sum())) % 2 == 0

    def symplectic_gram(self):
        a = self.X.astype(np.int64) @ self.Z.astype(np.int64).T
        return (a + a.T) % 2

    def is_abelian(self):
        return not self.symplectic_gram().any()

    def hermitian(self):
        """every row Hermitian (k = x.z mod 2)"""
        return bool(np.all((self.K - (self.X & self.Z).sum(axis=1)) % 2 == 0))

    def rank(self):
        return gf2.rank(np.hstack([self.X, self.Z]))

    # gates: conjugation  g -> U g U^dagger, vectorised over rows --------------------------------
    def h(self, q):
        a, b = self.X[:, q].copy(), self.Z[:, q].copy()
        self.K = (self.K + 2 * (a & b)) % 4
        self.X[:, q], self.Z[:, q] = b, a

    def s(self, q):
        a = self.X[:, q]
        self.K = (self.K + a) % 4
        self.Z[:, q] ^= a

    def sdg(self, q):
        a = self.X[:, q]
        self.K = (self.K + 3 * a.astype(np.int64)) % 4
        self.Z[:, q] ^= a

    def x(self, q):
        self.K = (self.K + 2 * self.Z[:, q].astype(np.int64)) % 4

    def z(self, q):
        self.K = (self.K + 2 * self.X[:, q].astype(np.int64)) % 4

    def y(self, q):
        self.K = (self.K + 2 * (self.X[:, q].astype(np.int64) + self.Z[:, q])) % 4

    def cnot(self, c, t):
        assert c != t
        self.X[:, t] ^= self.X[:, c]
        self.Z[:, c] ^= self.Z[:, t]

    def cz(self, c, t):
        assert c != t
        self.K = (self.K + 2 * (self.X[:, c].astype(np.int64) & self.X[:, t])) % 4
        self.Z[:, c] ^= self.X[:, t]
        self.Z[:, t] ^= self.X[:, c]

    def swap(self, a, b):
        self.X[:, [a, b]] = self.X[:, [b, a]]
        self.Z[:, [a, b]] = self.Z[:, [b, a]]

    def apply(self, name, *q):
        name = name.lower()
        {"h": self.h, "s": self.s, "p": self.s, "sdg": self.sdg, "p_dag": self.sdg, "x": self.x, "y": self.y,
         "z": self.z, "cnot": self.cnot, "cx": self.cnot, "cz": self.cz, "swap": self.swap,
         "i": lambda *a: None}[name](*q)

    # ---------------------------------------------------------------- canonical form of the generated group
    def canonical(self):
        """unique reduced echelon generating set of the group generated by the rows (rows must commute)."""
        t = self.copy()
        n, m = t.n, t.m
        r = 0
        full = np.hstack([t.X, t.Z])
        for c in range(2 * n):
            if r >= m:
                break
            col = np.hstack([t.X, t.Z])[:, c]
            nz = [i for i in range(r, m) if col[i]]
            if not nz:
                continue
            p = nz[0]
            if p != r:
                for arr in (t.X, t.Z):
                    arr[[r, p]] = arr[[p, r]]
                t.K[[r, p]] = t.K[[p, r]]
            col = np.hstack([t.X, t.Z])[:, c]
            for i in range(m):
                if i != r and col[i]:
                    t.mul_into(r, i)
            r += 1
        # drop identity rows (dependent generators)
        keep = [i for i in range(m) if t.X[i].any() or t.Z[i].any()]
        bad = [i for i in range(m) if i not in keep and t.K[i] % 4 != 0]
        t2 = PTab(t.X[keep], t.Z[keep], t.K[keep]) if keep else PTab(np.zeros((0, n)), np.zeros((0, n)), [])
        t2.contains_minus_identity = bool(bad)
        return t2

    def key(self):
        c = self.canonical()
        return (c.X.tobytes(), c.Z.tobytes(), c.K.tobytes(), c.X.shape)

    def same_group(self, other):
        if self.n != other.n:
            return False
        return self.key() == other.key()

    def same_group_up_to_signs(self, other):
        a, b = self.canonical(), other.canonical()
        return a.X.shape == b.X.shape and np.array_equal(a.X, b.X) and np.array_equal(a.Z, b.Z)

    def phase_of(self, x, z):
        """if the Pauli with bits (x,z) (any phase) is in the group, return the k with which it occurs, else None"""
        x = (np.array(x, dtype=np.int64) & 1).astype(np.uint8)
        z = (np.array(z, dtype=np.int64) & 1).astype(np.uint8)
        a = np.hstack([self.X, self.Z]).T  # (2n) x m ; solve a c = v
        v = np.hstack([x, z])
        c = gf2.solve(a, v)
        if c is None:
            return None
        acc = PTab(np.zeros((1, self.n)), np.zeros((1, self.n)), [0])
        tmp = PTab(np.vstack([self.X, acc.X]), np.vstack([self.Z, acc.Z]), np.hstack([self.K, acc.K]))
        last = self.m
        for i in np.nonzero(c)[0]:
            tmp.mul_into(int(i), last)
        assert np.array_equal(tmp.X[last], x) and np.array_equal(tmp.Z[last], z)
        return int(tmp.K[last])

    # ---------------------------------------------------------------- measurement post-condition
    def measure_z_info(self, q):
        """('random', None) if Z_q anticommutes with some generator, else ('det', outcome)"""
        if self.X[:, q].any():
            return "random", None
        x = np.zeros(self.n, dtype=np.uint8)
        z = np.zeros(self.n, dtype=np.uint8)
        z[q] = 1
        k = self.phase_of(x, z)
        assert k is not None and k % 2 == 0, "Z_q commutes with a full stabilizer group but is not in it"
        return "det", (k // 2) % 2

    def after_measure_z(self, q, outcome):
        """group after projective Z_q measurement with the given outcome (assumed possible)"""
        t = self.copy()
        anti = [i for i in range(t.m) if t.X[i, q]]
        if not anti:
            return t
        p = anti[0]
        for i in anti[1:]:
            t.mul_into(p, i)
        t.X[p] = 0
        t.Z[p] = 0
        t.Z[p, q] = 1
        t.K[p] = 2 * (outcome & 1)
        return t

    def insert_qubit_zero(self, pos):
        """G (x) <+Z_new> with the new qubit at index pos"""
        n, m = self.n, self.m
        X = np.insert(self.X, pos, 0, axis=1)
        Z = np.insert(self.Z, pos, 0, axis=1)
        xr = np.zeros((1, n + 1), dtype=np.uint8)
        zr = np.zeros((1, n + 1), dtype=np.uint8)
        zr[0, pos] = 1
        return PTab(np.vstack([X, xr]), np.vstack([Z, zr]), np.hstack([self.K, [0]]))

    def restrict_to(self, keep):
        """subgroup of elements acting trivially outside `keep`, written on the kept qubits (in the order given).
        For a pure state whose traced qubits are unentangled from the kept ones this is the full stabilizer group of
        the reduced state."""
        n = self.n
        keep = list(keep)
        out = [j for j in range(n) if j not in keep]
        # find combinations c with (sum c_i row_i) zero on `out` columns
        a = np.hstack([self.X[:, out], self.Z[:, out]]).T  # (2|out|) x m
        if a.shape[0] == 0:
            combos = np.eye(self.m, dtype=np.uint8)
        else:
            combos = gf2.nullspace(a)
        rowsX, rowsZ, K = [], [], []
        for c in combos:
            tmp = PTab(np.vstack([self.X, np.zeros((1, n))]), np.vstack([self.Z, np.zeros((1, n))]),
                       np.hstack([self.K, [0]]))
            for i in np.nonzero(c)[0]:
                tmp.mul_into(int(i), self.m)
            rowsX.append(tmp.X[self.m][keep])
            rowsZ.append(tmp.Z[self.m][keep])
            K.append(tmp.K[self.m])
        if not rowsX:
            return PTab(np.zeros((0, len(keep))), np.zeros((0, len(keep))), [])
        return PTab(np.array(rowsX), np.array(rowsZ), K)

    def tensor(self, other):
        n1, n2 = self.n, other.n
        X = np.block([[self.X, np.zeros((self.m, n2), dtype=np.uint8)], [np.zeros((other.m, n1), dtype=np.uint8), other.X]])
        Z = np.block([[self.Z, np.zeros((self.m, n2), dtype=np.uint8)], [np.zeros((other.m, n1), dtype=np.uint8), other.Z]])
        return PTab(X, Z, np.hstack([self.K, other.K]))

    def entropy_cut(self, a_qubits):
        """entanglement entropy (bits) of a pure stabilizer state across A | rest:  rank(generators restricted to A) - |A|"""
        a_qubits = list(a_qubits)
        if not a_qubits:
            return 0
        sub = np.hstack([self.X[:, a_qubits], self.Z[:, a_qubits]])
        return gf2.rank(sub) - len(a_qubits)


# ------------------------------------------------------------------------------------------------ helpers on full tableaux
def check_clifford_tableau(table, phase, iphase, n):
    """structural invariants of a graphiq CliffordTableau; returns list of problems (empty = ok)"""
    probs = []
    table = np.asarray(table)
    if table.shape != (2 * n, 2 * n):
        return [f"table shape {table.shape} != {(2*n, 2*n)}"]
    if np.asarray(phase).shape != (2 * n,):
        probs.append(f"phase shape {np.asarray(phase).shape}")
    if np.asarray(iphase).shape != (2 * n,):
        probs.append(f"iphase shape {np.asarray(iphase).shape}")
    if probs:
        return probs
    for name, arr in (("table", table), ("phase", phase), ("iphase", iphase)):
        arr = np.asarray(arr)
        if not np.issubdtype(arr.dtype, np.integer):
            if not np.all(arr == np.round(arr)):
                probs.append(f"{name} not integral")
        if np.any((arr != 0) & (arr != 1)):
            probs.append(f"{name} has entries outside {{0,1}}")
    if probs:
        return probs
    t = (table.astype(np.int64) & 1)
    x, z = t[:, :n], t[:, n:]
    gram = (x @ z.T + z @ x.T) % 2
    omega = np.zeros((2 * n, 2 * n), dtype=np.int64)
    omega[:n, n:] = np.eye(n)
    omega[n:, :n] = np.eye(n)
    if not np.array_equal(gram, omega):
        d = np.argwhere(gram != omega)
        probs.append(f"not symplectic/paired: {len(d)} entries of T Omega T^T differ, first at {d[0].tolist()}")
    # stabilizer rows must be Hermitian with real sign: iphase of stabilizer rows is 0
    if np.any(np.asarray(iphase)[n:] != 0):
        probs.append("stabilizer row with non-zero iphase (non-Hermitian stabilizer)")
    return probs


def stab_group_of_clifford(table, phase, iphase, n):
    table = np.asarray(table).astype(np.int64)
    return PTab.from_graphiq(table[n:, :n], table[n:, n:], np.asarray(phase)[n:], np.asarray(iphase)[n:])


def full_rows_of_clifford(table, phase, iphase, n):
    table = np.asarray(table).astype(np.int64)
    return PTab.from_graphiq(table[:, :n], table[:, n:], phase, iphase)


def random_clifford_word(rng, n, length, two_qubit=True):
    """random list of gate tuples over H,S,Sdg,X,Y,Z,CNOT,CZ"""
    w = []
    for _ in range(length):
        if n >= 2 and two_qubit and rng.random() < 0.4:
            a, b = rng.choice(n, size=2, replace=False)
            w.append((["cnot", "cz"][int(rng.integers(2))], int(a), int(b)))
        else:
            w.append((["h", "s", "sdg", "x", "y", "z"][int(rng.integers(6))], int(rng.integers(n))))
    return w


def random_stabilizer_group(rng, n, length=None, scramble=True):
    """random n-qubit stabilizer state (as PTab of n generators), optionally with a scrambled generating set"""
    t = PTab.zero_state(n)
    for g in random_clifford_word(rng, n, length if length is not None else 6 * n + 4):
        t.apply(*g)
    if scramble:
        t = scramble_generators(rng, t)
    return t


def scramble_generators(rng, t, steps=None):
    """another generating set of the same group (random row products and swaps)"""
    t = t.copy()
    m = t.m
    if m < 2:
        return t
    for _ in range(steps if steps is not None else 3 * m):
        i, j = rng.choice(m, size=2, replace=False)
        if rng.random() < 0.7:
            t.mul_into(int(i), int(j))
        else:
            for arr in (t.X, t.Z):
                arr[[i, j]] = arr[[j, i]]
            t.K[[i, j]] = t.K[[j, i]]
    return t


def combine(t, coeffs):
    """product of the rows of t selected by the 0/1 vector coeffs (in row order); returns (x, z, k)"""
    n = t.n
    acc = PTab(np.vstack([t.X, np.zeros((1, n), dtype=np.uint8)]), np.vstack([t.Z, np.zeros((1, n), dtype=np.uint8)]),
               np.hstack([t.K, [0]]))
    last = t.m
    for i in np.nonzero(np.asarray(coeffs))[0]:
        # acc_last <- acc_last * row_i  (order: previous product on the left)
        acc.K[last] = (acc.K[last] + acc.K[i] + 2 * int((acc.Z[last] & acc.X[i]).sum())) % 4
        acc.X[last] ^= acc.X[i]
        acc.Z[last] ^= acc.Z[i]
    return acc.X[last].copy(), acc.Z[last].copy(), int(acc.K[last])


def overlap_sq(t1, t2):
    """|<a|b>|^2 of two pure stabilizer states given by full generating sets:
    0 if some Pauli occurs in both groups with opposite signs, else 2^-(n - dim(S_a cap S_b))"""
    n = t1.n
    A = np.hstack([t1.X, t1.Z])
    B = np.hstack([t2.X, t2.Z])
    # (ca, cb) with ca A + cb B = 0
    M = np.vstack([A, B]).T
    ns = gf2.nullspace(M)
    dim = 0
    rows = []
    for v in ns:
        ca, cb = v[:t1.m], v[t1.m:]
        if not ca.any():
            continue
        xa, za, ka = combine(t1, ca)
        xb, zb, kb = combine(t2, cb)
        assert np.array_equal(xa, xb) and np.array_equal(za, zb)
        if (ka - kb) % 4 != 0:
            return 0.0
        rows.append(np.hstack([xa, za]))
    dim = gf2.rank(np.array(rows)) if rows else 0
    return 2.0 ** (-(n - dim))


# ------------------------------------------------------------------------------------------------ fast canonical key (big ints)
def _rows_to_ints(M):
    M = np.asarray(M, dtype=np.uint8)
    if M.shape[1] == 0:
        return [0] * M.shape[0]
    packed = np.packbits(M, axis=1, bitorder="little")
    return [int.from_bytes(packed[i].tobytes(), "little") for i in range(M.shape[0])]


def fast_key(t):
    """canonical key of the group generated by the rows of t; same mathematics as PTab.canonical (reduced echelon form
    over the columns x_0..x_{n-1}, z_0..z_{n-1} with exact phases), implemented on Python integers for speed."""
    n, m = t.n, t.m
    xs, zs, ks = _rows_to_ints(t.X), _rows_to_ints(t.Z), [int(k) for k in t.K]
    r = 0
    for c in range(2 * n):
        if r >= m:
            break
        bit = 1 << (c if c < n else c - n)
        col = xs if c < n else zs
        p = -1
        for i in range(r, m):
            if col[i] & bit:
                p = i
                break
        if p < 0:
            continue
        if p != r:
            xs[r], xs[p] = xs[p], xs[r]
            zs[r], zs[p] = zs[p], zs[r]
            ks[r], ks[p] = ks[p], ks[r]
        xr, zr, kr = xs[r], zs[r], ks[r]
        for i in range(m):
            if i != r and (col[i] & bit):
                ks[i] = (kr + ks[i] + 2 * bin(zr & xs[i]).count("1")) % 4
                xs[i] ^= xr
                zs[i] ^= zr
        r += 1
    rows = tuple((xs[i], zs[i], ks[i]) for i in range(m) if xs[i] or zs[i])
    minus_identity = any((not xs[i] and not zs[i]) and ks[i] % 4 for i in range(m))
    return (n, rows, minus_identity)


def same_group_fast(a, b):
    return a.n == b.n and fast_key(a) == fast_key(b)
