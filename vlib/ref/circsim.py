"""Reference semantics of circuit programs (textbook): registers start in |0>, photons are indexed before emitters,
a wrapper [g1..gk] denotes the matrix product g1 g2 .. gk (gk acts first), a measurement projects and renormalises,
a classically controlled gate is applied iff the recorded outcome is 1, a reset leaves |0>.
Two independent carriers of the state: dense density matrix (n <= 7) and stabilizer group (any n).
Nothing here imports graphiq; operations are the harness' SpecOp objects (kind, q, c, gates)."""
import numpy as np

from . import dense, pauli

GATE_OF = {"I": "i", "H": "h", "P": "s", "Pdag": "sdg", "X": "x", "Y": "y", "Z": "z"}
EPS = 1e-9


class Impossible(Exception):
    pass


class RefState:
    def __init__(self, n_p, n_e, n_c, dense_ok=True, rho0=None, group0=None):
        self.n_p, self.n_e, self.n = n_p, n_e, n_p + n_e
        self.creg = [0] * n_c
        self.rho = None
        if dense_ok and self.n <= 7:
            self.rho = dense.zero_rho(self.n) if rho0 is None else np.array(rho0, dtype=complex)
        self.group = pauli.PTab.zero_state(self.n) if group0 is None else group0.copy()
        if rho0 is not None and group0 is None:
            self.group = None
        self.log = []

    def q(self, reg):
        t, i = reg
        return i if t == "p" else self.n_p + i

    # ------------------------------------------------------------------ primitives
    def gate(self, name, qs):
        if self.rho is not None:
            self.rho = dense.gate(self.rho, name, qs, self.n)
        if self.group is not None:
            self.group.apply(name, *qs)

    def probs(self, q):
        """(p0, p1) of a Z measurement of qubit q, normalised"""
        if self.rho is not None:
            p0, p1 = dense.prob_z(self.rho, q, self.n)
            s = p0 + p1
            return p0 / s, p1 / s
        kind, out = self.group.measure_z_info(q)
        if kind == "random":
            return 0.5, 0.5
        return (1.0, 0.0) if out == 0 else (0.0, 1.0)

    def measure(self, q, outcome):
        p = self.probs(q)
        if p[outcome] < EPS:
            raise Impossible(f"outcome {outcome} on qubit {q} has reference probability {p[outcome]:.3g}")
        if self.rho is not None:
            self.rho = dense.project_z(self.rho, q, outcome, self.n)
        if self.group is not None:
            self.group = self.group.after_measure_z(q, outcome)
        return p

    def reset_after_measure(self, q, outcome):
        if outcome:
            self.gate("x", [q])

    # ------------------------------------------------------------------ program operations
    def apply(self, op, outcome=None):
        """apply one SpecOp; `outcome` must be given for measuring kinds. Returns the outcome probability pair or None"""
        k = op.kind
        qs = [self.q(r) for r in op.q]
        if k in GATE_OF:
            self.gate(GATE_OF[k], qs)
            return None
        if k == "W":
            for g in reversed(op.gates):
                self.gate(GATE_OF[g], qs)
            return None
        if k == "CNOT":
            self.gate("cnot", qs)
            return None
        if k == "CZ":
            self.gate("cz", qs)
            return None
        if outcome not in (0, 1):
            raise ValueError(f"operation {k} needs an outcome")
        p = self.measure(qs[0], outcome)
        if k == "MZ":
            pass
        elif k == "cCNOT":
            if outcome:
                self.gate("x", [qs[1]])
        elif k == "cCZ":
            if outcome:
                self.gate("z", [qs[1]])
        elif k == "MR":
            if outcome:
                self.gate("x", [qs[1]])
            self.reset_after_measure(qs[0], outcome)
        else:
            raise ValueError(k)
        if op.c is not None:
            self.creg[op.c] = outcome
        return p


def expected_forced_outcome(p, setting):
    """graphiq's forced settings mean: take `setting` if it is possible, otherwise the other outcome"""
    if setting in (0, 1):
        return setting if p[setting] >= EPS else 1 - setting
    return None


def branches(prog_ops, n_p, n_e, n_c, order, max_branches=64):
    """enumerate all outcome branches of a program in a given execution order with the reference alone.
    yields (outcomes dict op.id->m, probability, RefState)"""
    start = RefState(n_p, n_e, n_c)
    stack = [(0, {}, 1.0, start)]
    count = 0
    while stack:
        i, outs, prob, st = stack.pop()
        while i < len(order) and order[i].kind not in ("MZ", "MR", "cCNOT", "cCZ"):
            st.apply(order[i])
            i += 1
        if i == len(order):
            count += 1
            yield outs, prob, st
            if count >= max_branches:
                return
            continue
        op = order[i]
        p = st.probs(st.q(op.q[0]))
        for m in (0, 1):
            if p[m] < EPS:
                continue
            s2 = RefState(n_p, n_e, n_c)
            s2.rho = None if st.rho is None else st.rho.copy()
            s2.group = None if st.group is None else st.group.copy()
            s2.creg = list(st.creg)
            s2.apply(op, m)
            o2 = dict(outs)
            o2[op.id] = m
            stack.append((i + 1, o2, prob * p[m], s2))
