"""Dense reference simulator (state vectors / density matrices), written from textbook definitions.
Qubit 0 is the most significant index.  Nothing here imports graphiq.
Operators are applied by index arithmetic on reshaped tensors (no kron chains)."""
import itertools
import numpy as np

SQ2 = np.sqrt(2.0)
I2 = np.eye(2, dtype=complex)
X = np.array([[0, 1], [1, 0]], dtype=complex)
Y = np.array([[0, -1j], [1j, 0]], dtype=complex)
Z = np.array([[1, 0], [0, -1]], dtype=complex)
H = np.array([[1, 1], [1, -1]], dtype=complex) / SQ2
S = np.array([[1, 0], [0, 1j]], dtype=complex)
SDG = np.array([[1, 0], [0, -1j]], dtype=complex)
P0 = np.array([[1, 0], [0, 0]], dtype=complex)
P1 = np.array([[0, 0], [0, 1]], dtype=complex)
LOWER = np.array([[0, 1], [0, 0]], dtype=complex)  # |0><1|

ONE_QUBIT = {"i": I2, "x": X, "y": Y, "z": Z, "h": H, "s": S, "p": S, "sdg": SDG, "p_dag": SDG}


def left(M, U, qubits, n):
    """(U on `qubits`) @ M   where M is (2^n x anything); U is 2^k x 2^k with qubits[0] most significant"""
    k = len(qubits)
    cols = M.shape[1] if M.ndim == 2 else 1
    T = M.reshape((2,) * n + (cols,))
    Ut = U.reshape((2,) * (2 * k))
    # contract U's input axes (k..2k-1) with T's axes `qubits`
    R = np.tensordot(Ut, T, axes=(list(range(k, 2 * k)), list(qubits)))
    # result axes: U outputs (k) first, then remaining T axes in order; move outputs back
    R = np.moveaxis(R, list(range(k)), list(qubits))
    return R.reshape(M.shape)


def conj_apply(rho, U, qubits, n):
    """U rho U^dagger for an operator U on `qubits` (U need not be unitary)"""
    A = left(rho, U, qubits, n)
    B = left(A.conj().T, U, qubits, n).conj().T
    return B


def channel(rho, kraus, qubits, n):
    out = np.zeros_like(rho)
    for K in kraus:
        out = out + conj_apply(rho, K, qubits, n)
    return out


def zero_rho(n):
    r = np.zeros((2 ** n, 2 ** n), dtype=complex)
    r[0, 0] = 1.0
    return r


def zero_vec(n):
    v = np.zeros(2 ** n, dtype=complex)
    v[0] = 1
    return v


def ket2dm(v):
    v = np.asarray(v, dtype=complex).reshape(-1)
    return np.outer(v, v.conj())


CNOT2 = np.array([[1, 0, 0, 0], [0, 1, 0, 0], [0, 0, 0, 1], [0, 0, 1, 0]], dtype=complex)
CZ2 = np.diag([1, 1, 1, -1]).astype(complex)
SWAP2 = np.array([[1, 0, 0, 0], [0, 0, 1, 0], [0, 1, 0, 0], [0, 0, 0, 1]], dtype=complex)


def gate(rho, name, qs, n):
    name = name.lower()
    if name in ONE_QUBIT:
        if name == "i":
            return rho
        return conj_apply(rho, ONE_QUBIT[name], [qs[0]], n)
    if name in ("cnot", "cx"):
        return conj_apply(rho, CNOT2, [qs[0], qs[1]], n)
    if name == "cz":
        return conj_apply(rho, CZ2, [qs[0], qs[1]], n)
    if name == "swap":
        return conj_apply(rho, SWAP2, [qs[0], qs[1]], n)
    raise ValueError(name)


def prob_z(rho, q, n):
    """(p0, p1) un-normalised: Tr(P_m rho)"""
    d = np.real(np.diag(rho)).reshape((2,) * n)
    p = d.sum(axis=tuple(i for i in range(n) if i != q))
    return float(p[0]), float(p[1])


def project_z(rho, q, outcome, n, renorm=True):
    P = P1 if outcome else P0
    r = conj_apply(rho, P, [q], n)
    if renorm:
        t = np.real(np.trace(r))
        tr_before = np.real(np.trace(rho))
        if t <= 0:
            raise ZeroDivisionError("projection onto an outcome of probability 0")
        # keep the trace of the input (sub-normalised states stay sub-normalised)
        r = r * (tr_before / t)
    return r


def reset(rho, q, n):
    """measure-free reset channel  rho -> |0><0|_q (x) Tr_q rho"""
    return channel(rho, [P0, LOWER], [q], n)


def depolarize(rho, q, p, n):
    """(1-p) rho + p/3 (X rho X + Y rho Y + Z rho Z)"""
    out = (1 - p) * rho
    for P in (X, Y, Z):
        out = out + (p / 3.0) * conj_apply(rho, P, [q], n)
    return out


def partial_trace(rho, keep, n):
    """reduced state on `keep` (in the order given), by summing diagonal environment indices"""
    keep = list(keep)
    env = [i for i in range(n) if i not in keep]
    T = rho.reshape((2,) * (2 * n))
    k = len(keep)
    out = np.zeros((2,) * (2 * k), dtype=complex)
    for e in itertools.product((0, 1), repeat=len(env)):
        idx = [slice(None)] * (2 * n)
        for pos, val in zip(env, e):
            idx[pos] = val
            idx[n + pos] = val
        sub = T[tuple(idx)]  # axes: kept row indices in increasing order, then kept col indices
        out = out + sub
    order = sorted(range(k), key=lambda i: keep[i])  # sub's axes are kept qubits in increasing order
    # position of keep[i] among sorted kept
    srt = sorted(keep)
    perm = [srt.index(q) for q in keep]
    out = np.transpose(out, perm + [k + p for p in perm])
    return out.reshape(2 ** k, 2 ** k)


def pauli_matrix(x, z, k, n=None):
    """dense matrix of i^k prod X^x Z^z"""
    x = list(x)
    z = list(z)
    M = np.array([[1.0 + 0j]])
    for a, b in zip(x, z):
        m = I2
        if a:
            m = m @ X
        if b:
            m = m @ Z
        M = np.kron(M, m)
    return (1j ** (int(k) % 4)) * M


def projector_of_group(ptab):
    """prod_i (I + g_i)/2 for the generators of a PTab (must be commuting, Hermitian)"""
    n = ptab.n
    d = 2 ** n
    P = np.eye(d, dtype=complex)
    for i in range(ptab.m):
        g = pauli_matrix(ptab.X[i], ptab.Z[i], ptab.K[i])
        P = P @ (np.eye(d) + g) / 2.0
    return P


def state_of_group(ptab):
    """state vector (up to phase, normalised) of a full stabilizer group"""
    P = projector_of_group(ptab)
    # pick the column with the largest norm
    norms = np.abs(np.diag(P))
    j = int(np.argmax(norms))
    v = P[:, j]
    nv = np.linalg.norm(v)
    if nv < 1e-9:
        raise ValueError("group does not stabilise a state (contains -I?)")
    return v / nv


def psd_min_eig(rho):
    h = (rho + rho.conj().T) / 2
    return float(np.linalg.eigvalsh(h)[0])


def sqrtm_psd(a):
    h = (a + a.conj().T) / 2
    w, v = np.linalg.eigh(h)
    w = np.clip(w, 0, None)
    return (v * np.sqrt(w)) @ v.conj().T


def uhlmann_fidelity(rho, sigma):
    s = sqrtm_psd(rho)
    m = s @ sigma @ s
    w = np.linalg.eigvalsh((m + m.conj().T) / 2)
    return float(np.sum(np.sqrt(np.clip(w, 0, None))) ** 2)


def trace_distance(rho, sigma):
    sv = np.linalg.svd(rho - sigma, compute_uv=False)
    return 0.5 * float(np.sum(sv))


def entropy_bits(rho):
    w = np.linalg.eigvalsh((rho + rho.conj().T) / 2)
    w = w[w > 1e-12]
    return float(-np.sum(w * np.log2(w)))


def graph_state_vec(adj):
    """2^{-n/2} sum_x (-1)^{sum_{i<j} A_ij x_i x_j} |x>  (qubit i = i-th row of adj, qubit 0 most significant)"""
    A = np.array(adj).astype(int)
    n = A.shape[0]
    v = np.zeros(2 ** n, dtype=complex)
    for idx in range(2 ** n):
        bits = [(idx >> (n - 1 - i)) & 1 for i in range(n)]
        e = 0
        for i in range(n):
            if bits[i]:
                for j in range(i + 1, n):
                    if bits[j] and A[i, j]:
                        e ^= 1
        v[idx] = -1.0 if e else 1.0
    return v / np.sqrt(2 ** n)


def random_unitary(rng, d):
    g = rng.normal(size=(d, d)) + 1j * rng.normal(size=(d, d))
    q, r = np.linalg.qr(g)
    ph = np.diag(r) / np.abs(np.diag(r))
    return q * ph


def random_pure(rng, n, real=False):
    d = 2 ** n
    v = rng.normal(size=d) + (0 if real else 1j * rng.normal(size=d))
    v = v / np.linalg.norm(v)
    return np.outer(v, v.conj())


def random_mixed(rng, n, rank=None, real=False):
    d = 2 ** n
    rank = d if rank is None else rank
    g = rng.normal(size=(d, rank)) + (0 if real else 1j * rng.normal(size=(d, rank)))
    rho = g @ g.conj().T
    return rho / np.real(np.trace(rho))
