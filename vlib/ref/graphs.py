"""Graph-side reference: local complementation, exhaustive LC orbits, cut rank, brute-force isomorphism.
Adjacency matrices are numpy 0/1 arrays; a graph on n<=7 vertices is also encoded as an int bitmask of its
upper triangle (row-major).  Nothing here imports graphiq."""
import itertools
import numpy as np

from . import gf2


def pairs(n):
    return [(i, j) for i in range(n) for j in range(i + 1, n)]


def adj_to_code(A):
    A = np.asarray(A).astype(int)
    n = A.shape[0]
    code = 0
    for b, (i, j) in enumerate(pairs(n)):
        if A[i, j]:
            code |= 1 << b
    return code


def code_to_adj(code, n):
    A = np.zeros((n, n), dtype=int)
    for b, (i, j) in enumerate(pairs(n)):
        if (code >> b) & 1:
            A[i, j] = A[j, i] = 1
    return A


def is_simple(A):
    A = np.asarray(A)
    return A.ndim == 2 and A.shape[0] == A.shape[1] and np.array_equal(A, A.T) and not np.diag(A).any() and \
        bool(np.all((A == 0) | (A == 1)))


def local_complement(A, v):
    """toggle all edges among the neighbours of v"""
    A = np.array(A).astype(int)
    nb = np.nonzero(A[v])[0]
    for a, b in itertools.combinations(nb, 2):
        A[a, b] ^= 1
        A[b, a] ^= 1
    return A


def orbit(A):
    """set of codes of all graphs LC-equivalent to A (exhaustive BFS)"""
    A = np.asarray(A).astype(int)
    n = A.shape[0]
    start = adj_to_code(A)
    seen = {start}
    todo = [start]
    while todo:
        c = todo.pop()
        M = code_to_adj(c, n)
        for v in range(n):
            c2 = adj_to_code(local_complement(M, v))
            if c2 not in seen:
                seen.add(c2)
                todo.append(c2)
    return seen


_ORBIT_CACHE = {}


def orbit_partition(n):
    """dict code -> orbit id, for all labelled graphs on n vertices"""
    if n in _ORBIT_CACHE:
        return _ORBIT_CACHE[n]
    m = n * (n - 1) // 2
    oid = {}
    k = 0
    for c in range(1 << m):
        if c in oid:
            continue
        for d in orbit(code_to_adj(c, n)):
            oid[d] = k
        k += 1
    _ORBIT_CACHE[n] = oid
    return oid


def cut_rank(A, left):
    A = np.asarray(A).astype(int)
    n = A.shape[0]
    left = list(left)
    right = [i for i in range(n) if i not in left]
    if not left or not right:
        return 0
    return gf2.rank(A[np.ix_(left, right)])


def cut_rank_profile(A):
    n = np.asarray(A).shape[0]
    return [cut_rank(A, range(k + 1)) for k in range(n)]


def relabel(A, perm):
    """B[perm[u], perm[v]] = A[u, v]"""
    A = np.asarray(A).astype(int)
    n = A.shape[0]
    B = np.zeros_like(A)
    for u in range(n):
        for v in range(n):
            B[perm[u], perm[v]] = A[u, v]
    return B


def isomorphic_bruteforce(A, B):
    A = np.asarray(A).astype(int)
    B = np.asarray(B).astype(int)
    n = A.shape[0]
    if B.shape != A.shape or A.sum() != B.sum():
        return False
    if sorted(A.sum(axis=0)) != sorted(B.sum(axis=0)):
        return False
    for p in itertools.permutations(range(n)):
        if np.array_equal(relabel(A, p), B):
            return True
    return False


def components(A):
    A = np.asarray(A).astype(int)
    n = A.shape[0]
    seen = [-1] * n
    c = 0
    for s in range(n):
        if seen[s] >= 0:
            continue
        stack = [s]
        seen[s] = c
        while stack:
            u = stack.pop()
            for v in np.nonzero(A[u])[0]:
                if seen[v] < 0:
                    seen[v] = c
                    stack.append(int(v))
        c += 1
    return c, seen


def random_graph(rng, n, p):
    A = np.zeros((n, n), dtype=int)
    for i, j in pairs(n):
        if rng.random() < p:
            A[i, j] = A[j, i] = 1
    return A


def random_connected_graph(rng, n, p):
    A = random_graph(rng, n, p)
    # add a random spanning tree
    order = list(rng.permutation(n))
    for k in range(1, n):
        u = order[k]
        v = order[int(rng.integers(k))]
        A[u, v] = A[v, u] = 1
    return A


def named_graphs(n):
    out = {}
    P = np.zeros((n, n), dtype=int)
    for i in range(n - 1):
        P[i, i + 1] = P[i + 1, i] = 1
    out["path"] = P
    C = P.copy()
    if n >= 3:
        C[0, n - 1] = C[n - 1, 0] = 1
    out["cycle"] = C
    St = np.zeros((n, n), dtype=int)
    St[0, 1:] = 1
    St[1:, 0] = 1
    out["star"] = St
    out["complete"] = np.ones((n, n), dtype=int) - np.eye(n, dtype=int)
    out["empty"] = np.zeros((n, n), dtype=int)
    return out


def graph_stabilizers(A):
    """generators X_i prod_{j~i} Z_j of |G> as (X, Z, K) arrays (all signs +)"""
    A = np.asarray(A).astype(int)
    n = A.shape[0]
    return np.eye(n, dtype=int), A.copy(), np.zeros(n, dtype=int)
