"""The repository's own test suite as a monitored workload (used by C01, C07 and C12).

`run(ctx, prop, monitor, tests, ...)` starts pytest on the tree under test with the plug-in vlib.pytest_mon in a child process,
reads what the passive monitor observed and folds it into the worker's collector: counters are prefixed "suite:", every
refutation becomes a violation whose replay case names the test that produced it.  The suite's own pass/fail verdicts are
ignored.  No result file (pytest could not start, watchdog) = nothing observed = the floor on suite:tests_run is missed and
the check ends inconclusive."""
import json
import os
import shutil
import subprocess
import sys
import tempfile

from . import boot

# test files grouped so that shards have comparable wall-clock (measured on the pinned tree, single process)
GROUPS = {
    "circuits": ["tests/test_circuits"],
    "stabilizer": ["tests/test_state_representation/stabilizer"],
    "state_rep": ["tests/test_state_representation/density_matrix", "tests/test_state_representation/graph",
                  "tests/test_state_representation/test_graph_LC_equivalence.py", "tests/test_state_representation/test_quantum_state.py",
                  "tests/test_state_representation/test_state_rep_conversion.py"],
    "noise": ["tests/test_noise"],
    "solvers_det": ["tests/test_solvers/test_deterministic_solver.py", "tests/test_solvers/test_solver_base.py",
                    "tests/test_solvers/test_alternate_target_solver.py"],
    "solvers_search": ["tests/test_solvers/test_evolutionary_random_solvers.py", "tests/test_solvers/test_hybrid_solvers.py",
                       "tests/test_solvers/test_gradient_descent_solver.py"],
    "utils": ["tests/test_utils", "tests/test_flags.py"],
    "bench": ["tests/test_benchmarking", "tests/test_simulation"],
}
QUICK = ["circuits", "stabilizer", "solvers_det"]


def shards(tier, seed):
    names = QUICK if tier == "quick" else list(GROUPS)
    return [{"kind": "suite", "group": g, "seed": seed, "shard": 900 + i} for i, g in enumerate(names)]


def run(ctx, monitor, tests, key_prefix="suite", timeout=2400):
    present = [t for t in tests if os.path.exists(os.path.join(boot.REPO, t.split("::")[0]))]
    if not present:
        ctx.note(f"suite workload: none of {tests} exists in the tree under test")
        return None
    tmpd = tempfile.mkdtemp(prefix="verif_suite_")
    out = os.path.join(tmpd, "observed.json")
    env = boot.child_env()
    env["PYTHONPATH"] = boot.VERIF + os.pathsep + boot.REPO
    env["VERIF_PYTEST_OUT"] = out
    env["VERIF_PYTEST_MONITORS"] = monitor
    cmd = [sys.executable, "-m", "pytest", "-q", "-p", "no:cacheprovider", "-p", "vlib.pytest_mon", "--timeout=900",
           "--continue-on-collection-errors"] + present
    try:
        subprocess.run(cmd, cwd=boot.REPO, env=env, stdout=subprocess.DEVNULL, stderr=subprocess.DEVNULL, timeout=timeout)
    except subprocess.TimeoutExpired:
        ctx.note(f"suite workload {present}: watchdog after {timeout}s (inconclusive, not a violation)")
    if not os.path.exists(out):
        ctx.note(f"suite workload {present}: no result file")
        shutil.rmtree(tmpd, ignore_errors=True)
        return None
    with open(out) as f:
        data = json.load(f)
    shutil.rmtree(tmpd, ignore_errors=True)
    ctx.count("suite:tests_run", data["tests_run"])
    for k, v in data["counts"].items():
        if k.startswith("refuted:"):
            continue
        ctx.count("suite:" + k, v)
    for t in present:
        ctx.case(("suite", monitor, t, data["tests_run"]), data["tests_run"] > 0,
                 {"workload": "repository test suite under the passive monitor", "tests": t, "tests_run": data["tests_run"]})
    for v in data["violations"]:
        d = v["detail"] if isinstance(v["detail"], dict) else {"detail": v["detail"]}
        fn = d.get("function") or d.get("edit") or d.get("op") or ""
        ctx.violation(v["kind"], {"suite_test": v["test"], "monitor": monitor}, d, key=f"{key_prefix}:{v['kind']}:{fn}")
    return data


def replay(case, ctx):
    return run(ctx, case["monitor"], [case["suite_test"]])
