#!/usr/bin/env python3
"""print python sources without license header, docstrings and blank lines (reading aid)"""
import sys, ast, io, tokenize
for fn in sys.argv[1:]:
    src = open(fn).read()
    tree = ast.parse(src)
    drop = set()
    for node in ast.walk(tree):
        if isinstance(node, (ast.FunctionDef, ast.ClassDef, ast.Module, ast.AsyncFunctionDef)):
            b = node.body
            if b and isinstance(b[0], ast.Expr) and isinstance(getattr(b[0], 'value', None), ast.Constant) and isinstance(b[0].value.value, str):
                for ln in range(b[0].lineno, b[0].end_lineno + 1):
                    drop.add(ln)
    print(f"##### {fn}")
    for i, line in enumerate(src.splitlines(), 1):
        if i in drop or not line.strip(): continue
        if i < 16 and line.startswith('#'): continue
        print(f"{i}:{line}")
