#!/usr/bin/env python3
"""Generates /verif/MANIFEST.json from the table below (so that it always validates)."""
import json, os, sys
HERE = os.path.dirname(os.path.dirname(os.path.abspath(__file__)))

BASELINE = "cd /repo && env -u GRAPHIQ_VERIF /venv/bin/python -m pytest -ra -q -p no:cacheprovider --timeout=900 --continue-on-collection-errors"

# id -> (technique, level text, level note, design ref)
CHECKS = {}

def add(pid, technique, text, note, ref):
    CHECKS[pid] = dict(technique=technique, text=text, note=note, ref=ref)

TRUST = "Trusted base: CPython 3.12 + sys.monitoring, numpy/scipy linear algebra, networkx containers, and the small reference models in vlib/ref (cross-checked against each other by vlib.ref.selftest before every run). "

add("C17", "runtime monitoring: boundary monitors on fidelity/trace_distance/partial_trace/Infidelity with an independent dense reference oracle over generated density matrices",
    "Every call of the monitored functions on tens of thousands (thorough: ~10^6) of generated pure/mixed/rank-deficient/near-pure/commuting/orthogonal/stabilizer pairs, triples and (state, subset) cases is compared with a reference written from the textbook definitions; symmetry, range, metric axioms and Fuchs-van de Graaf are asserted on the observed values. Held on the observed executions only. Array results are overwritten by the harness once copied: later answers must not depend on it.",
    TRUST + "Tolerances 1e-7 (5e-6 on mixed-state fidelity values because of the sqrt conditioning).", "DESIGN.md section 5, C17")

add("C20", "runtime monitoring: exhaustive enumeration of the finite single-qubit Clifford library through the real lookup/simplify functions and one-wrapper compiles on both backends, judged by an independent matrix oracle",
    "The finite space is enumerated completely through the real code: 24 entries, 576 products, every word over {I,H,P,X,Y,Z} up to length 5 (quick) / 7 (thorough), all 24 wrappers x register type x backend x 7 input preparations (incl. an entangled partner), plus sampled non-Clifford matrices that must be rejected. Every shard first overwrites in place whatever arrays / lists the lookup functions hand out (class and list arguments), so the exhaustive part runs on a library whose results a caller has scribbled on.",
    TRUST + "Equality up to global phase with tolerance 1e-9.", "DESIGN.md section 5, C20")
add("C05", "runtime monitoring: boundary monitors on stabilizer fidelity / inner_product / canonical_form / Stabilizer.__eq__ / Infidelity with dense and closed-form overlap oracles over complete small spaces and random large states",
    "Every ordered pair of stabilizer states on <=2 qubits (thorough: <=3 qubits, 1.17 million pairs) in random generating sets with random destabilizers, plus random pairs up to 10 qubits (word-related, sign-only different, same state in two presentations), is pushed through the real functions and compared with |<a|b>|^2 computed independently.",
    TRUST + "Values are dyadic rationals compared with tolerance 1e-9.", "DESIGN.md section 5, C05")
add("C11", "runtime monitoring: boundary monitors on inverse_circuit / clifford_from_stabilizer / graph->tableau with an independent Pauli-algebra oracle replaying the returned circuits",
    "For every ordered generating set of every stabilizer state on <=2 qubits (thorough: <=3 qubits, 181806 presentations), random and Y/sign-heavy states up to 12 qubits and graphs up to 30 vertices, the returned circuit is replayed by the oracle forwards (must reach +Z_1..+Z_n) and backwards from |0..0> (must reproduce the state), and every derived Clifford tableau is checked for validity and for the state it represents. Calls on malformed (non-commuting) tableaux of the same size are interleaved and discarded: answers for valid states must not depend on them.",
    TRUST, "DESIGN.md section 5, C11")

add("C07", "runtime monitoring: sys.monitoring probes on every tableau primitive (invariant at a hook + transition check against an independent Pauli-algebra model) under exhaustive one-step and long random operation histories",
    "Every call of every tableau primitive (nested calls included) is snapshotted at entry and checked at return: binary/symplectic/paired invariants and the exact stabilizer group the operation must produce (conjugation for gates, Aaronson-Gottesman post-condition for measurement, reset, insertion of |0>, removal / partial trace, tensor). Workload: all 11520 two-qubit tableaux x ~70 API calls (thorough; sampled in quick) and random histories up to n = 200 qubits, also through the Stabilizer / MixedStabilizer wrappers. The repository's own test suite is a further workload: it runs unedited under the same passive monitor (vlib/pytest_mon.py). Unitary methods of the Stabilizer / MixedStabilizer wrappers (incl. apply_circuit forward / reversed) are also judged at the wrapper boundary. Half of the walks branch three tableaux off the same int64 arrays: one driven in place, one walked, one (and the arrays) that must not move.",
    TRUST + "measure_x / measure_y are judged on their outcome only.", "DESIGN.md section 5, C07")

add("C03", "runtime monitoring: boundary monitors on the height functions / emitter count and a sys.monitoring probe on rref, judged by an independent GF(2) entanglement-entropy oracle; solver outputs inspected",
    "height_func_list / height_dict / height_max / height_function (on the same arrays overwritten in place between states) / determine_n_emitters are called on every generating set of every stabilizer state on <=2 (thorough <=3) qubits, on random states in three generating sets each up to 12 qubits and on graphs up to 40 vertices, and compared with rank_GF2(generators restricted to A) - |A| (itself checked against dense von Neumann entropies); every rref call is probed for state preservation and echelon shape; solver circuits are checked for n_emitters = max profile and one emission per photon.",
    TRUST + "Known finding trs-isolated-vertex is reported, not hidden.", "DESIGN.md section 5, C03")

add("C09", "runtime monitoring: boundary monitors on the LC-equivalence decision and its constructive outputs, judged by exhaustive local-complementation orbits and an independent Pauli-algebra/dense oracle; probe on the solution-basis finder",
    "Every ordered pair of labelled graphs on <=4 (thorough <=5: 1.05 million) vertices plus sampled pairs on 6..9 vertices with known truth goes through is_lc_equivalent (both modes); each 'yes' is followed through local_clifford_ops, find_lc_operations, converter_gate_list, lc_check (graph / stabilizer / Clifford tableau inputs), Graph.lc_equivalent and state_converter_circuit, whose gate lists and complementation sequences are replayed by the oracle; local complementation itself is checked for the toggling rule and involution.",
    TRUST + "For n>=7 'inequivalent' is asserted only when a cut-rank invariant differs.", "DESIGN.md section 5, C09")

add("C16", "runtime monitoring: boundary monitors on relabel / get_relabel_map / iso_finder / the LC-orbit explorers plus a sys.monitoring probe on local_comp_graph recording every complementation applied; brute-force isomorphism and exhaustive-orbit oracles",
    "Generated graphs on 2..9 vertices x permutations x (n_iso, thresholds, seeds, flags) x orbit method and depth are pushed through the real functions; every returned matrix is checked for isomorphism with the input, distinctness, count and position, every returned orbit graph for membership in the exhaustive LC orbit (n<=6) or in the chain of complementations the probe observed (each step checked).",
    TRUST + "VF2 (networkx) decides isomorphism above 7 vertices.", "DESIGN.md section 5, C16")

add("C08", "runtime monitoring: boundary monitors on every conversion function and on QuantumState.convert_representation for all ordered representation pairs, judged by independent graph-state / Pauli-algebra / dense oracles; probe on the Hadamard-position finder",
    "All labelled graphs on <=4 (thorough <=5) vertices and random graphs up to 40 vertices (8 for density matrices), in permuted node orders and random generating sets, go through graph<->stabilizer<->density conversions and all six ordered convert_representation pairs; all stabilizer states on <=2 (thorough <=3) qubits and random states up to 12 qubits go through state_to_graph, whose returned gates are replayed by the oracle onto the input and must give the returned graph's state with exact signs. History families: the same input object converted again after the previous result and then the input were changed in place; a refused conversion caught by the caller, then the object used further.",
    TRUST, "DESIGN.md section 5, C08")

add("C01", "runtime monitoring: lock-step online checker - sys.monitoring probes on compile / compile_one_gate / measurement primitives record every executed operation, outcome, state and classical register, replayed against an independent reference simulator of the harness' own program specification; tableau monitor active underneath",
    "Thousands of generated programs (add / insert_at interleavings, gates after measure-and-reset, classical control between same-type registers, 1-qubit circuits, wrappers) are compiled by both backends under forced 0 / forced 1 / probabilistic outcomes and optional stabilizer initial states. The monitor checks that the executed order is a linear extension of the per-register program order, that every drawn or forced outcome is possible / as forced, and compares the backend state and the classical register array with the reference after every single operation and at the end. Also: operations carrying noise objects while noise simulation is off, noise simulation on without noise (one-component mixtures), and the repository's own test suite run under the passive lock-step monitor, each compile judged when it returns.",
    TRUST + "Probabilistic runs are judged conditioned on the outcomes drawn; outcome frequencies are not judged.", "DESIGN.md section 5, C01")

add("C12", "runtime monitoring: invariant-at-a-hook / history checker - after every edit of a generated edit history the live CircuitDAG is walked by an independent structural checker and compared with the harness' own specification of each register wire",
    "All edit histories of length <=2 (thorough <=3, ~40k histories) over a fixed 35-edit alphabet and random histories up to 200 edits over {add, insert_at on compatible edges, remove_op, replace_op, unwrap_nodes, group_one_qubit_gates, remove_identity, register additions, copy, assign_noise}. After every edit: acyclic, sources/sinks are the register inputs/outputs, each wire is a single path visiting exactly the specified operations in the specified order (object identity where known), edge_dict and node_dict agree with the graph, sequence() is a topological order, depth and register_depth equal the oracle's dynamic programme, register counts only change through register additions. Also: edits the API documents as rejected (wrong edge count, other registers, skipped register index) must leave the circuit unchanged; the label query functions are asked after every edit; the repository's own test suite runs under the passive DAG monitor. The source of every copy is kept and re-checked after each later edit on the copy.",
    TRUST + "register_depth (exponential-time in graphiq) is only queried on circuits with <=28 nodes.", "DESIGN.md section 5, C12")

add("C18", "runtime monitoring: boundary monitors on the nine cost-metric classes (default and explicit construction) and on depth / register_depth, judged by an independent cost oracle over the harness' own operation lists",
    "Generated circuits (solver vocabulary with >=1 emitter for all nine metrics; full alphabet for depth, per-register depth, emitter count and emitter-emitter CNOT count), with and without wrappers, identities, resets and with whole operation classes missing, are evaluated by every metric class constructed with default arguments and with an explicit penalty; each value is compared with the quantity computed from the specification, and the circuit is checked to be untouched afterwards. Metric objects are reused across circuits, metrics are re-evaluated on the same circuit object after remove / replace edits, also through the Metrics container and with a non-monotone penalty.",
    TRUST + "CZ / Z-measurement are not judged for the unitary / measurement counts (not determined by the documentation).", "DESIGN.md section 5, C18")

add("C14", "runtime monitoring: boundary monitors on the exporters / importers with (i) a structural and compiled-state comparison of the re-imported circuit against the harness' specification, (ii) an independent standard openQASM 2 reader (qiskit.qasm2 + dense reference) simulating the exported text branch by branch, (iii) textual determinism across exports, copies and processes with a different PYTHONHASHSEED",
    "Generated circuits over all exportable operations (wrappers, PhaseDagger, identities, classically controlled gates, measure-and-reset, register indices >= 10, add and insert_at placement) are exported and re-imported through openQASM and JSON; registers, per-register operation sequences, the attributes the compilers read and the forced-outcome compiled states must agree; the text is parsed by qiskit's openQASM 2 parser and every outcome branch (up to 8 per circuit) simulated by the dense reference must equal the reference semantics of the specification.",
    TRUST + "qiskit.qasm2 is trusted as 'standard openQASM 2.0 semantics'.", "DESIGN.md section 5, C14")

add("C13", "runtime monitoring: (a) rewrite equivalence judged through the lock-step compile monitor and the reference; (b) offline history checker - before and after every call of a random interleaving of library calls on a pool of shared objects, fingerprints of ALL pool objects are recorded and any change of an object the call must not modify is a refutation",
    "(a) Each rewrite (copy, unwrap_nodes, group_one_qubit_gates, remove_identity, assign_noise with an empty map) of generated programs is compiled under forced outcomes by both backends and compared with the original, whose own compile is judged against the reference; repeated compiles must agree. (b) Histories of 5-25 calls over {compile with both backends / noise on-off / initial states, metric evaluation, TimeReversedSolver on targets in all three representations, assign_noise, MonteCarloNoise, compare, export, rewrites on copies} with fingerprints (operations, labels, wrapper contents, attached noise; denoted state of targets and initial states; noise maps) of every pool object after every call. Half of the pools hold a target graph whose nodes were created out of sorted order.",
    TRUST + "Compiler objects are configuration and are not fingerprinted.", "DESIGN.md section 5, C13")

add("C15", "runtime monitoring: boundary monitors on every comparison / de-duplication entry point over generated (circuit, perturbation) pairs and lists, judged by an independent behavioural-equivalence oracle (all measurement branches on several probe inputs, register renamings enumerated for the isomorphism method)",
    "Pairs (c, perturbed c) - swapped control/target, gate moved to another same-type register or across a neighbour, wrapped/unwrapped, identities, registers exchanged, classical-control direction flipped, replaced gates, independent circuits - go through compare with methods direct, is_isomorphic and (small circuits) GED; every 'equal' answer is checked against the oracle, plus reflexivity on copies, symmetry and insensitivity to wrapping/identities; remove_redundant_circuits and CircuitStorage must only drop circuits that are equivalent to one they keep. Each CircuitStorage also gets a kept circuit edited in place and is then offered its old version.",
    TRUST + "Equivalence is decided on three probe inputs (can hide, never fake, a violation).", "DESIGN.md section 5, C15")

add("C02", "runtime monitoring: boundary monitor on TimeReversedSolver.solve; the returned circuit is judged by enumerating ALL measurement-outcome branches with the independent reference semantics and by lock-step monitored compiles on both backends; tableau and DAG monitors run inside solve()",
    "Targets: every labelled graph on <=4 (thorough <=5) vertices, random / tree / cycle / complete / repeater / lattice / disjoint-union graphs up to 14 vertices in permuted orders, presented as graph, stabilizer (random generating set) and density-matrix QuantumState. For each returned circuit: validate(), DAG invariants, every outcome branch must end in |G><G| (x) |0..0>_emitters exactly (dense up to 7 qubits, stabilizer groups above), both real compilers are followed step by step under forced 0 / forced 1 / probabilistic outcomes, and the reported score must be the true infidelity 0. A probe on the time-reversed measurement records path signatures; a committed corpus (corpus/c02_trs_paths.json) of targets reaching every signature known on the pinned tree is solved and judged on every run.",
    TRUST + "Known finding trs-isolated-vertex (IndexError for targets with an isolated vertex) is reported, not hidden.", "DESIGN.md section 5, C02")

add("C04", "runtime monitoring: sys.monitoring probes on the seven mutation moves check, at the return of every move (driven directly or inside solve()), the emission structure, the DAG invariants and the survival of every 'Fixed' emission / measure-and-reset operation present before the move",
    "Initial circuits for all small (n_photon, n_emitter) with random assignments and TimeReversedSolver outputs are mutated by random sequences of up to 300 moves (uniform and with the solvers' own probabilities), and complete EvolutionarySolver / HybridEvolutionarySolver runs with small populations are observed; after every move: validate(), structural DAG check, no photon-photon two-qubit operation, first operation of every photon is its emission CNOT from an emitter, afterwards only one-qubit gates or measurement-controlled corrections targeting it, no Fixed emission CNOT / measure-and-reset lost.",
    TRUST, "DESIGN.md section 5, C04")

add("C19", "runtime monitoring: history checker over solver runs - a probe on update_hof records per-generation hall-of-fame scores and object identities (aliasing with the population); solve() results are re-evaluated by the harness and by the reference; reproducibility is decided by repeating each seeded configuration in-process and in fresh processes under different PYTHONHASHSEED values (fault injection)",
    "Configurations over targets x solver (Evolutionary 1-3 emitters, Hybrid) x backend x population / generations / hall-of-fame size / tournament / selection / adaptive x seed are each solved twice in the worker and once in two fresh processes with PYTHONHASHSEED 1 and 2: halls of fame (scores and exported circuits) must be identical; per generation the hall of fame is non-decreasing and the best score never gets worse; stored circuits are distinct objects sharing no operation with the population; every stored score equals the metric pipeline re-run on the stored circuit and the reference-judged infidelity; result is the best entry.",
    TRUST + "Small populations / few generations only.", "DESIGN.md section 5, C19")

add("C06", "runtime monitoring: the lock-step compile monitor records the operations and outcomes each backend executed under noise; an independent reference applies the same operations with the channels the harness attached (directly or through a noise map whose meaning the harness derives itself); results of both backends are compared with it and with each other",
    "Generated programs with depolarizing / Pauli / photon-loss noise of strengths {0, 1e-3, 0.1, 0.5, 1} before or after one-qubit gates, wrapper gates and CNOT/CZ (one or two entries), attached directly or via assign_noise, are compiled by the density-matrix backend and the stabilizer-mixture backend: Hermitian, PSD, trace = product of survival probabilities, equal to the reference; mixture weight and sum of weighted projectors equal to the reference; Infidelity with a random pure stabilizer target equal on both; zero strength / empty map / noise_simulation=False equal to the noiseless compile. The density-matrix backend is judged through uncertain measurements (post-selection), the mixture up to the first one; their disagreement there is the known finding measurement-on-noisy-state.",
    TRUST + "Noise on measuring operations is not generated (documented as unsupported).", "DESIGN.md section 5, C06")

add("C10", "runtime monitoring: boundary monitor on AlternateTargetSolver.solve (default and generated settings); every result entry is judged by the all-branch reference enumeration and lock-step monitored compiles against the target relabelled by the entry's own map, the listed graph by exhaustive LC orbits; tableau / DAG monitors run inside solve()",
    "Connected targets on 2..6 (thorough ..7) vertices in four presentations x (n_iso, n_lc, every LC-orbit method incl. linear on paths and rgs on repeater graphs, orbit depth, sort_emit, allow_exhaustive, seeds) plus the default construction: for every returned (circuit, graph, map) the map must be a bijection, the circuit must generate |relabel(target, map)> (x) |0..0> in every outcome branch and on both real backends, the listed graph must lie in the LC orbit of the relabelled target, no two entries may list the same graph, and solver.result must match the returned list. One dense 8-9 vertex target per shard (four or more emitters) is solved under cheap settings; there LC-equivalence of the listed graph is judged by cut-rank invariants only.",
    TRUST + "label_map=True and noise / Monte-Carlo scoring are not varied.", "DESIGN.md section 5, C10")

NOT_YET = {
}

def main():
    props = [json.loads(l) for l in open(os.path.join(HERE, "properties.jsonl"))]
    checks = []
    na = []
    for p in props:
        pid = p["id"]
        if pid in CHECKS:
            c = CHECKS[pid]
            checks.append({
                "property_id": pid,
                "quick_cmd": f"./check {pid} --tier quick",
                "thorough_cmd": f"./check {pid} --tier thorough",
                "evidence_file": f"/verif/evidence/{pid}.json",
                "replay_cmd_template": f"./check {pid} --replay {{path}}",
                "engine": "vlib-runtime-monitor",
                "level_claimed": {"category": "exploration", "text": c["text"], "design_ref": c["ref"]},
                "level_note": c["note"],
                "technique": c["technique"],
            })
        else:
            na.append({"property_id": pid, "reason": NOT_YET.get(pid, "check under construction in this session: no verdict is claimed yet (the technique applies; see DESIGN.md section 5)")})
    m = {
        "version": 1,
        "setup_cmd": "./setup.sh",
        "hooks": {
            "guard": "GRAPHIQ_VERIF",
            "enable": "no source hooks in /repo: the monitors attach to the code objects of the working tree through sys.monitoring from /verif/vlib/probes.py; GRAPHIQ_VERIF=1 is set by the runner for its worker processes and read only by /verif",
            "baseline_off_cmd": BASELINE,
            "source_commits": [],
            "add_only": True,
        },
        "engines": [{"name": "vlib-runtime-monitor", "path": "/verif/vlib", "serves_properties": sorted(CHECKS),
                     "kind_free_text": "runtime monitoring: generated workloads driven through the real graphiq code in 16 worker processes; sys.monitoring probes, boundary monitors and history checkers judged by independent reference models (vlib/ref)"}],
        "checks": checks,
        "not_applicable": na,
        "notes": "exit 0 = held on everything observed (KNOWN-FINDING lines allowed), 1 = VIOLATION line(s), 2 = inconclusive (coverage floor missed / worker failure). VERIF_SEED and VERIF_TIER are honoured. known_findings.json is read-only at run time.",
    }
    with open(os.path.join(HERE, "MANIFEST.json"), "w") as f:
        json.dump(m, f, indent=1)
        f.write("\n")
    print("MANIFEST.json:", len(checks), "checks,", len(na), "not yet claimed")

if __name__ == "__main__":
    main()
