#!/usr/bin/env python3
"""validate MANIFEST.json and every evidence file against the schemas (run with python3-vt, which has jsonschema)"""
import json, glob, sys, jsonschema
ok = True
try:
    jsonschema.validate(json.load(open('/verif/MANIFEST.json')), json.load(open('/root/.vp/MANIFEST.schema.json')))
except Exception as e:
    ok = False; print("MANIFEST:", str(e)[:300])
sch = json.load(open('/root/.vp/EVIDENCE.schema.json'))
for f in sorted(glob.glob('/verif/evidence/*.json')):
    try:
        ev = json.load(open(f)); jsonschema.validate(ev, sch)
        print(f.split('/')[-1], ev['tier'], 'seed', ev['seed'], ev.get('verdict'), 'eval', ev['coverage']['evaluations'], 'distinct', ev['coverage']['distinct_nontrivial'], 'samples', len(ev['coverage']['samples']))
    except Exception as e:
        ok = False; print(f, "INVALID", str(e)[:200])
sys.exit(0 if ok else 1)
