#!/usr/bin/env python3
"""Run checks against a mutated scratch copy of /repo (never touches /repo).
usage: tools/mutate.py (--patch FILE | --revert COMMIT | --sed 'FILE:::OLD:::NEW') [--tier quick] [--seed N] C05 C11 ...
prints, per property, CAUGHT / MISSED with the exit code; removes the scratch copy afterwards."""
import argparse, os, shutil, subprocess, sys, tempfile
ap = argparse.ArgumentParser()
ap.add_argument("--patch"); ap.add_argument("--revert"); ap.add_argument("--sed", action="append", default=[])
ap.add_argument("--tier", default="quick"); ap.add_argument("--seed", default="0")
ap.add_argument("props", nargs="+")
a = ap.parse_args()
tmp = tempfile.mkdtemp(prefix="mut-", dir="/tmp")
try:
    subprocess.run(["rsync", "-a", "--exclude", ".git", "--exclude", "__pycache__", "/repo/graphiq", tmp + "/"], check=True)
    if a.patch:
        r = subprocess.run(["patch", "-p1", "-d", tmp, "-i", os.path.abspath(a.patch)], capture_output=True, text=True)
        if r.returncode: print(r.stdout, r.stderr); sys.exit(3)
    if a.revert:
        d = subprocess.run(["git", "-C", "/repo", "show", a.revert], capture_output=True, text=True).stdout
        r = subprocess.run(["patch", "-R", "-p1", "-d", tmp], input=d, capture_output=True, text=True)
        if r.returncode: print(r.stdout, r.stderr); sys.exit(3)
    for s in a.sed:
        f, old, new = s.split(":::")
        p = os.path.join(tmp, f)
        src = open(p).read()
        if old not in src: print("pattern not found in", f); sys.exit(3)
        open(p, "w").write(src.replace(old, new, 1))
    # must still import
    r = subprocess.run(["/venv/bin/python", "-c", "import graphiq.solvers.time_reversed_solver, graphiq.solvers.alternate_target_solver, graphiq.solvers.hybrid_solvers"],
                       env={**os.environ, "PYTHONPATH": tmp, "MPLBACKEND": "Agg", "PYTHONDONTWRITEBYTECODE": "1"}, capture_output=True, text=True)
    if r.returncode: print("mutant does not import:", r.stderr[-800:]); sys.exit(3)
    rc_all = 0
    for p in a.props:
        env = {**os.environ, "VERIF_KEEP_EVIDENCE": "1"}
        r = subprocess.run(["./check", p, "--tier", a.tier, "--seed", a.seed, "--repo", tmp], cwd="/verif", capture_output=True, text=True, env=env)
        lines = [l for l in r.stdout.splitlines() if l.startswith(("VIOLATION", "   kind=", "INCONCLUSIVE", "HELD", "KNOWN"))]
        print(f"{p}: {'CAUGHT' if r.returncode == 1 else ('MISSED' if r.returncode == 0 else 'INCONCLUSIVE')} (exit {r.returncode})")
        for l in lines[:6]: print("    " + l[:300])
        if r.returncode not in (0, 1): print(r.stdout[-1500:], r.stderr[-1500:])
finally:
    shutil.rmtree(tmp, ignore_errors=True)
