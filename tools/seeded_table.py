#!/usr/bin/env python3
"""markdown table of the seeded changes under /verif/seeded and which checks catch them (from meta.json)"""
import json, glob, os
print("| seeded change | what it changes / what it needs to manifest | confirmed (demo clean/patched, imports) | checks run -> verdict | note |")
print("|---|---|---|---|---|")
for d in sorted(glob.glob("/verif/seeded/*/")):
    m = json.load(open(d + "meta.json"))
    notes = m.get("needs_to_manifest", "").strip().splitlines()
    head = " ".join(l.strip("# ").strip() for l in notes[:3])[:260].replace("|", "/")
    c = m.get("confirmation", {})
    conf = f"{c.get('demo_on_clean_tree_exit')}/{c.get('demo_with_patch_exit')}, {'ok' if c.get('imports') else 'IMPORT FAILS'}"
    det = ", ".join(f"{k}: {v.get('verdict')}" for k, v in m.get("detection", {}).items())
    print(f"| {os.path.basename(d.rstrip('/'))} | {head} | {conf} | {det} | {m.get('history', '')[:300].replace('|', '/')} |")
