#!/usr/bin/env python3
"""replace the table of seeded changes at the end of DESIGN.md 9.5 with the current output of tools/seeded_table.py"""
import subprocess, re
tab = subprocess.run(["python3", "/verif/tools/seeded_table.py"], capture_output=True, text=True).stdout
tab = "\n".join(l for l in tab.splitlines() if l.startswith("|")) + "\n"
p = "/verif/DESIGN.md"
s = open(p).read()
i = s.index("| seeded change | what it changes")
j = s.index("## Appendix A", i)
s = s[:i] + tab + "\n" + s[j:]
open(p, "w").write(s)
print("table rows:", tab.count("\n") - 2)
