#!/usr/bin/env python3
"""build /verif/corpus/c02_trs_paths.json: for every path signature of the time-reversed measurement (vlib.mon.trs_paths) seen
while solving all connected 6-vertex graphs and a sample of 7/8-vertex graphs on the tree under test, the (up to) three first
targets that reach it.  Run on the unchanged tree; the file is committed and read by the quick tier of C02."""
import json, os, subprocess, sys, time
V = os.path.dirname(os.path.dirname(os.path.abspath(__file__)))
WORKER = r"""
import sys, json
sys.path.insert(0, %r)
from vlib import boot
boot.import_graphiq()
import numpy as np
from vlib.ref import graphs
from vlib.mon.trs_paths import PathProbe
from vlib import gq
from graphiq.solvers.time_reversed_solver import TimeReversedSolver
from graphiq.metrics import Infidelity
part, nparts = int(sys.argv[1]), int(sys.argv[2])
m = gq.mods()
probe = PathProbe().install()
out = {}
def solve(A):
    target = m["QuantumState"](gq.nx_from_adj(A), rep_type="g")
    target.convert_representation("s")
    comp = m["StabilizerCompiler"]()
    comp.measurement_determinism = 1
    probe.take()
    try:
        TimeReversedSolver(target=target, metric=Infidelity(target=target), compiler=comp).solve()
    except Exception:
        pass
    for sig in set(probe.take()):
        out.setdefault(sig, [])
        if len(out[sig]) < 3:
            out[sig].append(A.tolist())
j = 0
for code in range(1 << 15):
    A = graphs.code_to_adj(code, 6)
    if graphs.components(A)[0] != 1:
        continue
    if j %% nparts == part:
        solve(A)
    j += 1
rng = np.random.default_rng([77, part])
for _ in range(150):
    n = int(rng.integers(7, 9))
    solve(graphs.random_connected_graph(rng, n, [0.25, 0.4, 0.55][int(rng.integers(3))]))
print("@@" + json.dumps(out))
""" % V
env = dict(os.environ, PYTHONPATH=os.pathsep.join([os.environ.get("VERIF_REPO", "/repo"), V]), MPLBACKEND="Agg", PYTHONHASHSEED="0")
N = 16
t0 = time.time()
procs = [subprocess.Popen(["/venv/bin/python", "-c", WORKER, str(i), str(N)], stdout=subprocess.PIPE, stderr=subprocess.DEVNULL, text=True, env=env) for i in range(N)]
merged = {}
for p in procs:
    o, _ = p.communicate()
    line = [l for l in o.splitlines() if l.startswith("@@")]
    for sig, gs in json.loads(line[0][2:]).items():
        merged.setdefault(sig, [])
        for g in gs:
            if len(merged[sig]) < 3 and g not in merged[sig]:
                merged[sig].append(g)
head = subprocess.run(["git", "-C", os.environ.get("VERIF_REPO", "/repo"), "rev-parse", "HEAD"], capture_output=True, text=True).stdout.strip()
json.dump({"built_on_repo_head": head, "what": "targets reaching each observed path signature of TimeReversedSolver._single_out_emitter "
           "(n_emitters:letters of the chosen generator on the emitters:sign:chosen emitter)", "signatures": dict(sorted(merged.items()))},
          open(os.path.join(V, "corpus", "c02_trs_paths.json"), "w"), indent=0)
print(len(merged), "signatures,", sum(len(v) for v in merged.values()), "targets,", round(time.time() - t0), "s")
