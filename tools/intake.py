#!/usr/bin/env python3
"""take a sub-agent's deliverable (/tmp/seeds/Cnn-out/{patchK.diff,demoK.py,notesK.md}) into /verif/seeded/Cnn-K/, confirm
it on a scratch copy, run the owning check (and optional extra checks) against it, and write meta.json.
usage: tools/intake.py C06 1 [--extra C01 C13] [--full-suite] [--tests tests/x.py]"""
import argparse, json, os, shutil, subprocess, sys
ap = argparse.ArgumentParser()
ap.add_argument("prop"); ap.add_argument("k"); ap.add_argument("--extra", nargs="*", default=[]); ap.add_argument("--full-suite", action="store_true")
ap.add_argument("--tests", nargs="*", default=[]); ap.add_argument("--tier", default="quick")
ap.add_argument("--src-root", default="/tmp/seeds"); ap.add_argument("--as", dest="as_k", default=None); ap.add_argument("--round", default=None)
a = ap.parse_args()
src = f"{a.src_root}/{a.prop}-out"
dst = f"/verif/seeded/{a.prop}-{a.as_k or a.k}"
os.makedirs(dst, exist_ok=True)
for s, d in ((f"patch{a.k}.diff", "patch.diff"), (f"demo{a.k}.py", "demo.py"), (f"notes{a.k}.md", "notes.md")):
    if os.path.exists(os.path.join(src, s)):
        shutil.copy(os.path.join(src, s), os.path.join(dst, d))
# demos may import helper modules from the agent's directory: copy plain .py helpers that the demo imports
demo = open(os.path.join(dst, "demo.py")).read()
for f in os.listdir(src):
    if f.endswith(".py") and not f.startswith("demo") and (f"import {f[:-3]}" in demo or f"from {f[:-3]}" in demo):
        shutil.copy(os.path.join(src, f), os.path.join(dst, f))
def run(args):
    r = subprocess.run(["python3", "/verif/tools/seeded.py"] + args, capture_output=True, text=True)
    line = [l for l in r.stdout.splitlines() if l.startswith("@@")]
    return json.loads(line[0][2:]) if line else {"error": (r.stdout + r.stderr)[-500:]}
conf = run(["confirm", dst] + (["--full-suite"] if a.full_suite else (["--tests"] + a.tests if a.tests else [])))
det = run(["detect", dst, a.prop] + a.extra + ["--tier", a.tier])
meta_p = os.path.join(dst, "meta.json")
meta = json.load(open(meta_p)) if os.path.exists(meta_p) else {}
meta.update({"property": a.prop, **({"round": a.round} if a.round else {}), "origin": "independent sub-agent given only the property text and a scratch worktree of /repo",
             "needs_to_manifest": open(os.path.join(dst, "notes.md")).read()[:1500] if os.path.exists(os.path.join(dst, "notes.md")) else "",
             "confirmation": conf, "detection": det.get("checks", det),
             "what_was_run": ["tools/seeded.py confirm (demo on clean tree / with patch, import, baseline tests)", f"tools/seeded.py detect {a.prop} {' '.join(a.extra)} --tier {a.tier}"]})
json.dump(meta, open(meta_p, "w"), indent=1)
print(a.prop, a.k, "confirmed" if conf.get("confirmed") else f"NOT CONFIRMED {conf}", {p: v.get("verdict") for p, v in det.get("checks", {}).items()})
