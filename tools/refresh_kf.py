#!/usr/bin/env python3
"""refresh the commit hashes of 'fixed' entries in known_findings.json from the subjects of the fix: commits in /repo
(each fixed entry names its commit by a distinctive part of the subject line)"""
import json, re, subprocess
p = "/verif/known_findings.json"
d = json.load(open(p))
log = subprocess.run(["git", "-C", "/repo", "log", "--format=%h %s"], capture_output=True, text=True).stdout.splitlines()
by_hash = {l.split()[0]: l.split(" ", 1)[1] for l in log}
for e in d["findings"]:
    if e.get("status") != "fixed":
        continue
    subj = e.get("subject")
    if not subj:
        old = e.get("commit")
        # first run: derive the subject from the backup branch where the old hashes live
        r = subprocess.run(["git", "-C", "/repo", "log", "-1", "--format=%s", old], capture_output=True, text=True)
        subj = r.stdout.strip()
        e["subject"] = subj
    match = [h for h, s in by_hash.items() if s == subj]
    if not match:
        print("NO COMMIT FOR", e["property"], e["key"], "|", subj)
        continue
    new = match[0]
    e["what"] = re.sub(r"(fixed: property=\S+ )\S+", lambda m: m.group(1) + new, e["what"], count=1)
    e["commit"] = new
json.dump(d, open(p, "w"), indent=1)
print("refreshed", sum(1 for e in d["findings"] if e.get("status") == "fixed"), "fixed entries")
