#!/usr/bin/env python3
"""Run the repository's pinned baseline (guard off) and compare with BASELINE.json's stable_pass list.
usage: tools/baseline.py [pytest args / test paths]   (no args = whole suite, ~9 min)"""
import json, os, subprocess, sys, tempfile, xml.etree.ElementTree as ET
base = json.load(open("/root/.vp/BASELINE.json"))
stable = set(base["stable_pass"])
tmp = tempfile.mkdtemp(prefix="baseline-")
xmlp = os.path.join(tmp, "junit.xml")
env = dict(os.environ)
env.pop("GRAPHIQ_VERIF", None)
env["MPLBACKEND"] = "Agg"
args = sys.argv[1:]
cmd = ["/venv/bin/python", "-m", "pytest", "-q", "-p", "no:cacheprovider", "--timeout=900",
       "--continue-on-collection-errors", f"--junitxml={xmlp}", "-x" if False else "-q"] + args
r = subprocess.run(cmd, cwd=os.environ.get("VERIF_REPO", "/repo"), env=env, capture_output=True, text=True)
passed, failed = set(), set()
for tc in ET.parse(xmlp).getroot().iter("testcase"):
    name = f"{tc.get('classname')}::{tc.get('name')}"
    bad = any(ch.tag in ("failure", "error", "skipped") for ch in tc)
    (failed if bad else passed).add(name)
ran = passed | failed
lost = sorted(t for t in stable if t in failed or (not args and t not in ran))
print(f"ran {len(ran)}: {len(passed)} passed, {len(failed)} failed; stable_pass tests now failing: {len(lost)}")
for t in lost:
    print("  LOST", t)
new = sorted(passed - stable)
print(f"newly passing (not in stable list): {len(new)}")
import shutil; shutil.rmtree(tmp, ignore_errors=True)
sys.exit(1 if lost else 0)
