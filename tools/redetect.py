#!/usr/bin/env python3
"""re-run the owning check (and the extra checks recorded in meta.json) against every seeded change with the checks as they are
now; keeps the first verdicts under detection_first, writes the current ones under detection.
usage: tools/redetect.py [-j 3] [names...]"""
import argparse, json, glob, os, subprocess
from concurrent.futures import ThreadPoolExecutor
ap = argparse.ArgumentParser(); ap.add_argument("-j", type=int, default=3); ap.add_argument("names", nargs="*")
a = ap.parse_args()
dirs = sorted(glob.glob("/verif/seeded/*/"))
if a.names:
    dirs = [d for d in dirs if os.path.basename(d.rstrip("/")) in a.names]

def one(d):
    mp = d + "meta.json"
    m = json.load(open(mp))
    det = m.get("detection", {})
    if isinstance(det, str):
        det = {}
    props = [m["property"]] + [p for p in det if p != m["property"]]
    r = subprocess.run(["python3", "/verif/tools/seeded.py", "detect", d.rstrip("/")] + props + ["--tier", "quick"], capture_output=True, text=True)
    line = [l for l in r.stdout.splitlines() if l.startswith("@@")]
    if not line:
        return d, "ERROR " + (r.stdout + r.stderr)[-300:]
    new = json.loads(line[0][2:]).get("checks", {})
    m = json.load(open(mp))
    if "detection_first" not in m and isinstance(m.get("detection"), dict):
        m["detection_first"] = {k: v.get("verdict") for k, v in m["detection"].items()}
    m["detection"] = new
    json.dump(m, open(mp, "w"), indent=1)
    return d, {k: v.get("verdict") for k, v in new.items()}

with ThreadPoolExecutor(a.j) as ex:
    for d, res in ex.map(one, dirs):
        print(os.path.basename(d.rstrip("/")), res, flush=True)
