#!/usr/bin/env python3
"""Confirm a seeded change and run the checks against it.  Never touches /repo: everything happens in a scratch copy.

usage: tools/seeded.py confirm  <dir with patch.diff demo.py> [--full-suite] [--tests tests/a.py tests/b.py]
           -> demo passes on the clean tree, fails with the patch, patched tree imports, (selected | all) baseline tests keep passing
       tools/seeded.py detect   <dir> C07 [C01 ...] [--tier quick] [--seed 0]
           -> runs the named checks against the patched scratch copy; prints CAUGHT / MISSED per check
Both print one JSON line at the end (prefixed '@@') that the caller may store in meta.json."""
import argparse, json, os, shutil, subprocess, sys, tempfile, time

PY = "/venv/bin/python"


def scratch(patch):
    tmp = tempfile.mkdtemp(prefix="sd-", dir="/tmp")
    subprocess.run(["rsync", "-a", "--exclude", ".git", "--exclude", "__pycache__", "/repo/", tmp + "/"], check=True)
    r = subprocess.run(["patch", "-p1", "-d", tmp, "-i", os.path.abspath(patch)], capture_output=True, text=True)
    if r.returncode:
        shutil.rmtree(tmp, ignore_errors=True)
        raise SystemExit("patch does not apply: " + r.stdout + r.stderr)
    return tmp


def run_demo(demo, root, timeout=900):
    env = {**os.environ, "PYTHONPATH": root, "MPLBACKEND": "Agg", "PYTHONDONTWRITEBYTECODE": "1"}
    r = subprocess.run([PY, os.path.abspath(demo)], cwd=root, env=env, capture_output=True, text=True, timeout=timeout)
    return r.returncode, (r.stdout + r.stderr)[-600:]


def main():
    ap = argparse.ArgumentParser()
    ap.add_argument("mode", choices=["confirm", "detect"])
    ap.add_argument("dir")
    ap.add_argument("props", nargs="*")
    ap.add_argument("--full-suite", action="store_true")
    ap.add_argument("--tests", nargs="*", default=[])
    ap.add_argument("--tier", default="quick")
    ap.add_argument("--seed", default="0")
    a = ap.parse_args()
    patch, demo = os.path.join(a.dir, "patch.diff"), os.path.join(a.dir, "demo.py")
    tmp = scratch(patch)
    out = {"dir": a.dir, "mode": a.mode}
    try:
        if a.mode == "confirm":
            rc0, o0 = run_demo(demo, "/repo")
            rc1, o1 = run_demo(demo, tmp)
            out.update({"demo_on_clean_tree_exit": rc0, "demo_with_patch_exit": rc1, "demo_with_patch_tail": o1[-300:]})
            imp = subprocess.run([PY, "-c", "import graphiq.solvers.alternate_target_solver, graphiq.solvers.hybrid_solvers, graphiq.noise.monte_carlo_noise"],
                                 env={**os.environ, "PYTHONPATH": tmp, "MPLBACKEND": "Agg", "PYTHONDONTWRITEBYTECODE": "1"}, capture_output=True, text=True)
            out["imports"] = imp.returncode == 0
            tests = [] if a.full_suite else a.tests
            if a.full_suite or a.tests:
                r = subprocess.run(["python3", "/verif/tools/baseline.py"] + tests, env={**os.environ, "VERIF_REPO": tmp}, capture_output=True, text=True)
                lines = [l for l in r.stdout.splitlines() if l.startswith(("ran ", "  LOST"))]
                out["baseline"] = lines
                out["baseline_ok"] = r.returncode == 0
                out["baseline_scope"] = "full suite" if a.full_suite else tests
            out["confirmed"] = (rc0 == 0 and rc1 != 0 and out["imports"] and out.get("baseline_ok", True))
        else:
            res = {}
            for p in a.props:
                t0 = time.time()
                r = subprocess.run(["./check", p, "--tier", a.tier, "--seed", a.seed, "--repo", tmp], cwd="/verif", capture_output=True, text=True,
                                   env={**os.environ, "VERIF_KEEP_EVIDENCE": "1"}, timeout=7200)
                first = [l for l in r.stdout.splitlines() if l.startswith("   kind=")][:1]
                res[p] = {"exit": r.returncode, "verdict": {0: "MISSED", 1: "CAUGHT"}.get(r.returncode, "INCONCLUSIVE"), "first_violation": first[0][:300] if first else None,
                          "wall_s": round(time.time() - t0, 1)}
                print(p, res[p]["verdict"], (first[0][:200] if first else ""))
            out["checks"] = res
    finally:
        shutil.rmtree(tmp, ignore_errors=True)
    print("@@" + json.dumps(out))


if __name__ == "__main__":
    main()
